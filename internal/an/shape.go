package an

import (
	"fmt"
	"go/token"
	"go/types"
	"sort"
	"strings"

	"golang.org/x/tools/go/ssa"
)

// Shape renders the expression tree that computes v as a canonical string (operators, conversions, callees,
// access paths). Local variable names never appear: locals are looked through, parameters are named.
func Shape(v ssa.Value) string {
	return shape(v, 0, map[ssa.Value]bool{})
}

// canonKey in the seen-set switches on canonical rendering: operands of commutative operators are sorted,
// `a <= b` is rendered `b >= a` and `a > b` as `b < a`, and the position of a range-over-slice loop is
// rendered idx(<slice>).
var canonKey ssa.Value = &ssa.Const{}

// ShapeCanon is Shape with commutative operands sorted, comparisons oriented and range positions named.
func ShapeCanon(v ssa.Value) string {
	return shape(v, 0, map[ssa.Value]bool{canonKey: true})
}

// namedKey in the seen-set renders a local variable that lives in memory (captured by a closure, or address
// taken) and is assigned more than once as $name instead of the set of values stored into it.
var namedKey ssa.Value = &ssa.Const{}

// ShapeCanonNamed is ShapeCanon with multiply-assigned memory-resident locals rendered by name.
func ShapeCanonNamed(v ssa.Value) string {
	return shape(v, 0, map[ssa.Value]bool{canonKey: true, namedKey: true})
}

// RangeIndexOf recognises go/ssa's lowering of `for i := range s` (i = phi(-1, i+1); the body uses i+1;
// the loop runs while i+1 < len(s)) and returns s.
func RangeIndexOf(v ssa.Value) (ssa.Value, bool) {
	// the counted form `for i := 0; i < len(s); i++` (also with !=): i = phi(0, i+1)
	if phi, isPhi := v.(*ssa.Phi); isPhi && len(phi.Edges) == 2 {
		zero, step := false, false
		for _, e := range phi.Edges {
			if k, isK := constInt(e); isK && k == 0 {
				zero = true
			}
			if inc, isB := e.(*ssa.BinOp); isB && inc.Op == token.ADD && inc.X == ssa.Value(phi) {
				if k, isK := constInt(inc.Y); isK && k == 1 {
					step = true
				}
			}
		}
		if zero && step {
			for _, ref := range *phi.Referrers() {
				cmp, ok := ref.(*ssa.BinOp)
				if !ok || (cmp.Op != token.LSS && cmp.Op != token.NEQ) || cmp.X != ssa.Value(phi) || cmp.Block() != phi.Block() {
					continue
				}
				if c, ok := cmp.Y.(*ssa.Call); ok {
					if b, isB := c.Call.Value.(*ssa.Builtin); isB && b.Name() == "len" && len(c.Call.Args) == 1 {
						return c.Call.Args[0], true
					}
				}
			}
		}
		return nil, false
	}
	bo, ok := v.(*ssa.BinOp)
	if !ok || bo.Op != token.ADD {
		return nil, false
	}
	if k, isK := constInt(bo.Y); !isK || k != 1 {
		return nil, false
	}
	phi, ok := bo.X.(*ssa.Phi)
	if !ok {
		return nil, false
	}
	back := false
	for _, e := range phi.Edges {
		if e == ssa.Value(bo) {
			back = true
		} else if k, isK := constInt(e); !isK || k != -1 {
			return nil, false
		}
	}
	if !back {
		return nil, false
	}
	for _, ref := range *bo.Referrers() {
		cmp, ok := ref.(*ssa.BinOp)
		if !ok || cmp.Op != token.LSS || cmp.X != ssa.Value(bo) || cmp.Block() != phi.Block() {
			continue
		}
		if c, ok := cmp.Y.(*ssa.Call); ok {
			if b, isB := c.Call.Value.(*ssa.Builtin); isB && b.Name() == "len" && len(c.Call.Args) == 1 {
				return c.Call.Args[0], true
			}
		}
	}
	return nil, false
}

func shapeType(t types.Type) string {
	return types.TypeString(t, func(p *types.Package) string { return "" })
}

func shape(v ssa.Value, depth int, seen map[ssa.Value]bool) string {
	if depth > 14 {
		return "…"
	}
	switch x := v.(type) {
	case *ssa.Const:
		if x.Value == nil {
			return "nil"
		}
		return x.Value.ExactString()
	case *ssa.Parameter:
		if fn := x.Parent(); IsNew(fn) && !seen[x] {
			// a helper that did not exist at review time: the parameter stands for the arguments at its call sites
			if alts := argsAtSites(x); len(alts) > 0 {
				seen[x] = true
				defer delete(seen, x)
				m := map[string]bool{}
				for _, a := range alts {
					m[shape(a, depth+1, seen)] = true
				}
				var ks []string
				for k := range m {
					ks = append(ks, k)
				}
				sort.Strings(ks)
				if len(ks) == 1 {
					return ks[0]
				}
				return "φ{" + strings.Join(ks, " | ") + "}"
			}
		}
		return ParamName(x)
	case *ssa.Global:
		return x.Name()
	case *ssa.Function:
		return x.Name()
	case *ssa.Builtin:
		return x.Name()
	case *ssa.BinOp:
		if seen[canonKey] {
			if s, ok := RangeIndexOf(x); ok {
				return "idx(" + shape(s, depth+1, seen) + ")"
			}
			a, b, op := shape(x.X, depth+1, seen), shape(x.Y, depth+1, seen), x.Op
			switch op {
			case token.ADD, token.MUL, token.EQL, token.NEQ, token.AND, token.OR, token.XOR:
				if _, isStr := x.X.Type().Underlying().(*types.Basic); isStr && x.X.Type().Underlying().(*types.Basic).Info()&types.IsString != 0 && op == token.ADD {
					break // string concatenation is not commutative
				}
				_, xc := x.X.(*ssa.Const)
				_, yc := x.Y.(*ssa.Const)
				switch {
				case xc && !yc:
				case yc && !xc:
					a, b = b, a
				case b < a:
					a, b = b, a
				}
			case token.LEQ:
				a, b, op = b, a, token.GEQ
			case token.GTR:
				a, b, op = b, a, token.LSS
			}
			return "(" + a + " " + op.String() + " " + b + ")"
		}
		return "(" + shape(x.X, depth+1, seen) + " " + x.Op.String() + " " + shape(x.Y, depth+1, seen) + ")"
	case *ssa.UnOp:
		switch x.Op {
		case token.MUL:
			return shapeLoad(x.X, depth, seen)
		case token.ARROW:
			return "<-" + shape(x.X, depth+1, seen)
		}
		return x.Op.String() + shape(x.X, depth+1, seen)
	case *ssa.Convert:
		return shapeType(x.Type()) + "(" + shape(x.X, depth+1, seen) + ")"
	case *ssa.ChangeType:
		return shape(x.X, depth+1, seen)
	case *ssa.MakeInterface:
		return shape(x.X, depth+1, seen)
	case *ssa.TypeAssert:
		return shape(x.X, depth+1, seen) + ".(" + shapeType(x.AssertedType) + ")"
	case *ssa.Field:
		return shape(x.X, depth+1, seen) + "." + fieldName(x.X.Type(), x.Field)
	case *ssa.FieldAddr:
		return "@" + shape(x.X, depth+1, seen) + "." + fieldName(x.X.Type(), x.Field)
	case *ssa.Index:
		return shape(x.X, depth+1, seen) + "[" + shape(x.Index, depth+1, seen) + "]"
	case *ssa.IndexAddr:
		return "@" + shape(x.X, depth+1, seen) + "[" + shape(x.Index, depth+1, seen) + "]"
	case *ssa.Lookup:
		return shape(x.X, depth+1, seen) + "[" + shape(x.Index, depth+1, seen) + "]"
	case *ssa.Slice:
		lo, hi := "", ""
		if x.Low != nil {
			lo = shape(x.Low, depth+1, seen)
		}
		if x.High != nil {
			hi = shape(x.High, depth+1, seen)
		}
		return shape(x.X, depth+1, seen) + "[" + lo + ":" + hi + "]"
	case *ssa.Extract:
		if c, ok := x.Tuple.(*ssa.Call); ok {
			if s, ok := shapeOfNewCall(c, x.Index, depth, seen); ok {
				return s
			}
		}
		return shape(x.Tuple, depth+1, seen) + fmt.Sprintf("#%d", x.Index)
	case *ssa.Call:
		if x.Call.Signature().Results().Len() == 1 {
			if s, ok := shapeOfNewCall(x, 0, depth, seen); ok {
				return s
			}
		}
		var args []string
		for _, a := range x.Call.Args {
			args = append(args, shape(a, depth+1, seen))
		}
		if x.Call.IsInvoke() {
			return shape(x.Call.Value, depth+1, seen) + "." + x.Call.Method.Name() + "(" + strings.Join(args, ",") + ")"
		}
		name := "?"
		if f := x.Call.StaticCallee(); f != nil {
			name = RefFuncName(f)
			if f.Pkg != nil && f.Signature.Recv() == nil && !strings.HasPrefix(f.Pkg.Pkg.Path(), "github.com/segmentio") {
				name = f.Pkg.Pkg.Name() + "." + name
			}
		} else if b, ok := x.Call.Value.(*ssa.Builtin); ok {
			name = b.Name()
		} else {
			name = "(" + shape(x.Call.Value, depth+1, seen) + ")"
		}
		return name + "(" + strings.Join(args, ",") + ")"
	case *ssa.Phi:
		if seen[canonKey] {
			if c, ok := RangeIndexOf(x); ok {
				return "idx(" + shape(c, depth+1, seen) + ")"
			}
		}
		if seen[x] {
			return "φ"
		}
		seen[x] = true
		defer delete(seen, x)
		m := map[string]bool{}
		for _, e := range x.Edges {
			m[shape(e, depth+1, seen)] = true
		}
		var ks []string
		for k := range m {
			ks = append(ks, k)
		}
		sort.Strings(ks)
		return "φ{" + strings.Join(ks, " | ") + "}"
	case *ssa.Alloc:
		return "@" + shapeLoad(x, depth, seen)
	case *ssa.MakeMap:
		return "make(" + shapeType(x.Type()) + ")"
	case *ssa.MakeSlice:
		return "make(" + shapeType(x.Type()) + "," + shape(x.Len, depth+1, seen) + ")"
	case *ssa.Next:
		return "next(" + shape(x.Iter, depth+1, seen) + ")"
	case *ssa.Range:
		return "range(" + shape(x.X, depth+1, seen) + ")"
	case *ssa.FreeVar:
		return "free:" + freeVarName(x)
	}
	return fmt.Sprintf("%T", v)
}

func shapeLoad(addr ssa.Value, depth int, seen map[ssa.Value]bool) string {
	switch a := addr.(type) {
	case *ssa.Alloc:
		// a local: the values stored into it
		if seen[namedKey] && a.Comment != "" {
			n := 0
			for _, r := range *a.Referrers() {
				if st, ok := r.(*ssa.Store); ok && st.Addr == ssa.Value(a) {
					n++
				}
			}
			if n >= 2 {
				return "$" + CellName(a)
			}
		}
		if seen[a] {
			return "φ"
		}
		seen[a] = true
		defer delete(seen, a)
		m := map[string]bool{}
		for _, r := range *a.Referrers() {
			if st, ok := r.(*ssa.Store); ok && st.Addr == ssa.Value(a) {
				m[shape(st.Val, depth+1, seen)] = true
			}
		}
		if len(m) == 0 {
			return "local:" + shapeType(a.Type())
		}
		var ks []string
		for k := range m {
			ks = append(ks, k)
		}
		sort.Strings(ks)
		if len(ks) == 1 {
			return ks[0]
		}
		return "φ{" + strings.Join(ks, " | ") + "}"
	case *ssa.FieldAddr:
		return shape(a.X, depth+1, seen) + "." + fieldName(a.X.Type(), a.Field)
	case *ssa.IndexAddr:
		return shape(a.X, depth+1, seen) + "[" + shape(a.Index, depth+1, seen) + "]"
	case *ssa.Global:
		return a.Name()
	}
	return "*" + shape(addr, depth+1, seen)
}

// freeVarName names a captured variable after the variable of the enclosing function it is bound to.
// FreeVarName is exported for rules that match captured variables by name.
func FreeVarName(x *ssa.FreeVar) string { return freeVarName(x) }

func freeVarName(x *ssa.FreeVar) string {
	fn := x.Parent()
	idx := -1
	for i, fv := range fn.FreeVars {
		if fv == x {
			idx = i
		}
	}
	if par := fn.Parent(); par != nil && idx >= 0 {
		for _, blk := range par.Blocks {
			for _, ins := range blk.Instrs {
				if mc, ok := ins.(*ssa.MakeClosure); ok && mc.Fn == fn && idx < len(mc.Bindings) {
					switch b := mc.Bindings[idx].(type) {
					case *ssa.Alloc:
						return CellName(b)
					case *ssa.FreeVar:
						return freeVarName(b)
					case *ssa.Parameter:
						return ParamName(b)
					}
				}
			}
		}
	}
	return x.Name()
}

// argsAtSites lists the arguments bound to a parameter of a new function at its static call sites.
func argsAtSites(x *ssa.Parameter) []ssa.Value {
	fn := x.Parent()
	idx := -1
	for i, p := range fn.Params {
		if p == x {
			idx = i
		}
	}
	if idx < 0 {
		return nil
	}
	var out []ssa.Value
	for _, site := range SitesOf(fn) {
		args := site.Common().Args
		if idx < len(args) {
			out = append(out, args[idx])
		}
	}
	return out
}

// ReturnedValues lists result i of every return of fn (through defer-spilled results).
func ReturnedValues(fn *ssa.Function, i int) []ssa.Value {
	var out []ssa.Value
	for _, b := range fn.Blocks {
		if b == fn.Recover {
			continue // the exit taken after a recovered panic: this module never recovers
		}
		for _, ins := range b.Instrs {
			if ret, ok := ins.(*ssa.Return); ok && i < len(ret.Results) {
				out = append(out, RetVal(ret, i))
			}
		}
	}
	return out
}

// shapeOfNewCall renders result i of a call to a function that did not exist at review time as the value it returns.
func shapeOfNewCall(c *ssa.Call, i int, depth int, seen map[ssa.Value]bool) (string, bool) {
	callee := c.Call.StaticCallee()
	if callee == nil || !IsNew(callee) || seen[c] {
		return "", false
	}
	rets := ReturnedValues(callee, i)
	if len(rets) == 0 {
		return "", false
	}
	seen[c] = true
	defer delete(seen, c)
	m := map[string]bool{}
	for _, r := range rets {
		m[shape(r, depth+1, seen)] = true
	}
	var ks []string
	for k := range m {
		ks = append(ks, k)
	}
	sort.Strings(ks)
	if len(ks) == 1 {
		return ks[0], true
	}
	return "φ{" + strings.Join(ks, " | ") + "}", true
}

// ArgsAtSites returns, for a parameter of a function that did not exist at review time, the arguments bound to
// it and the corresponding call instructions.
func ArgsAtSites(x *ssa.Parameter) ([]ssa.Value, []ssa.Instruction) {
	fn := x.Parent()
	idx := -1
	for i, p := range fn.Params {
		if p == x {
			idx = i
		}
	}
	var vals []ssa.Value
	var sites []ssa.Instruction
	if idx < 0 {
		return nil, nil
	}
	for _, site := range SitesOf(fn) {
		args := site.Common().Args
		if idx < len(args) {
			vals = append(vals, args[idx])
			sites = append(sites, site.(ssa.Instruction))
		}
	}
	return vals, sites
}

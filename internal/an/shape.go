package an

import (
	"fmt"
	"go/token"
	"go/types"
	"sort"
	"strings"

	"golang.org/x/tools/go/ssa"
)

// Shape renders the expression tree that computes v as a canonical string (operators, conversions, callees,
// access paths). Local variable names never appear: locals are looked through, parameters are named.
func Shape(v ssa.Value) string {
	return shape(v, 0, map[ssa.Value]bool{})
}

// canonKey in the seen-set switches on canonical rendering: operands of commutative operators are sorted,
// `a <= b` is rendered `b >= a` and `a > b` as `b < a`, and the position of a range-over-slice loop is
// rendered idx(<slice>).
var canonKey ssa.Value = &ssa.Const{}

// ShapeCanon is Shape with commutative operands sorted, comparisons oriented and range positions named.
func ShapeCanon(v ssa.Value) string {
	return shape(v, 0, map[ssa.Value]bool{canonKey: true})
}

// namedKey in the seen-set renders a local variable that lives in memory (captured by a closure, or address
// taken) and is assigned more than once as $name instead of the set of values stored into it.
var namedKey ssa.Value = &ssa.Const{}

// ShapeCanonNamed is ShapeCanon with multiply-assigned memory-resident locals rendered by name.
func ShapeCanonNamed(v ssa.Value) string {
	return shape(v, 0, map[ssa.Value]bool{canonKey: true, namedKey: true})
}

// RangeIndexOf recognises go/ssa's lowering of `for i := range s` (i = phi(-1, i+1); the body uses i+1;
// the loop runs while i+1 < len(s)) and returns s.
func RangeIndexOf(v ssa.Value) (ssa.Value, bool) {
	bo, ok := v.(*ssa.BinOp)
	if !ok || bo.Op != token.ADD {
		return nil, false
	}
	if k, isK := constInt(bo.Y); !isK || k != 1 {
		return nil, false
	}
	phi, ok := bo.X.(*ssa.Phi)
	if !ok {
		return nil, false
	}
	back := false
	for _, e := range phi.Edges {
		if e == ssa.Value(bo) {
			back = true
		} else if k, isK := constInt(e); !isK || k != -1 {
			return nil, false
		}
	}
	if !back {
		return nil, false
	}
	for _, ref := range *bo.Referrers() {
		cmp, ok := ref.(*ssa.BinOp)
		if !ok || cmp.Op != token.LSS || cmp.X != ssa.Value(bo) || cmp.Block() != phi.Block() {
			continue
		}
		if c, ok := cmp.Y.(*ssa.Call); ok {
			if b, isB := c.Call.Value.(*ssa.Builtin); isB && b.Name() == "len" && len(c.Call.Args) == 1 {
				return c.Call.Args[0], true
			}
		}
	}
	return nil, false
}

func shapeType(t types.Type) string {
	return types.TypeString(t, func(p *types.Package) string { return "" })
}

func shape(v ssa.Value, depth int, seen map[ssa.Value]bool) string {
	if depth > 14 {
		return "…"
	}
	switch x := v.(type) {
	case *ssa.Const:
		if x.Value == nil {
			return "nil"
		}
		return x.Value.ExactString()
	case *ssa.Parameter:
		return x.Name()
	case *ssa.Global:
		return x.Name()
	case *ssa.Function:
		return x.Name()
	case *ssa.Builtin:
		return x.Name()
	case *ssa.BinOp:
		if seen[canonKey] {
			if s, ok := RangeIndexOf(x); ok {
				return "idx(" + shape(s, depth+1, seen) + ")"
			}
			a, b, op := shape(x.X, depth+1, seen), shape(x.Y, depth+1, seen), x.Op
			switch op {
			case token.ADD, token.MUL, token.EQL, token.NEQ, token.AND, token.OR, token.XOR:
				if _, isStr := x.X.Type().Underlying().(*types.Basic); isStr && x.X.Type().Underlying().(*types.Basic).Info()&types.IsString != 0 && op == token.ADD {
					break // string concatenation is not commutative
				}
				_, xc := x.X.(*ssa.Const)
				_, yc := x.Y.(*ssa.Const)
				switch {
				case xc && !yc:
				case yc && !xc:
					a, b = b, a
				case b < a:
					a, b = b, a
				}
			case token.LEQ:
				a, b, op = b, a, token.GEQ
			case token.GTR:
				a, b, op = b, a, token.LSS
			}
			return "(" + a + " " + op.String() + " " + b + ")"
		}
		return "(" + shape(x.X, depth+1, seen) + " " + x.Op.String() + " " + shape(x.Y, depth+1, seen) + ")"
	case *ssa.UnOp:
		switch x.Op {
		case token.MUL:
			return shapeLoad(x.X, depth, seen)
		case token.ARROW:
			return "<-" + shape(x.X, depth+1, seen)
		}
		return x.Op.String() + shape(x.X, depth+1, seen)
	case *ssa.Convert:
		return shapeType(x.Type()) + "(" + shape(x.X, depth+1, seen) + ")"
	case *ssa.ChangeType:
		return shape(x.X, depth+1, seen)
	case *ssa.MakeInterface:
		return shape(x.X, depth+1, seen)
	case *ssa.TypeAssert:
		return shape(x.X, depth+1, seen) + ".(" + shapeType(x.AssertedType) + ")"
	case *ssa.Field:
		return shape(x.X, depth+1, seen) + "." + fieldName(x.X.Type(), x.Field)
	case *ssa.FieldAddr:
		return "@" + shape(x.X, depth+1, seen) + "." + fieldName(x.X.Type(), x.Field)
	case *ssa.Index:
		return shape(x.X, depth+1, seen) + "[" + shape(x.Index, depth+1, seen) + "]"
	case *ssa.IndexAddr:
		return "@" + shape(x.X, depth+1, seen) + "[" + shape(x.Index, depth+1, seen) + "]"
	case *ssa.Lookup:
		return shape(x.X, depth+1, seen) + "[" + shape(x.Index, depth+1, seen) + "]"
	case *ssa.Slice:
		lo, hi := "", ""
		if x.Low != nil {
			lo = shape(x.Low, depth+1, seen)
		}
		if x.High != nil {
			hi = shape(x.High, depth+1, seen)
		}
		return shape(x.X, depth+1, seen) + "[" + lo + ":" + hi + "]"
	case *ssa.Extract:
		return shape(x.Tuple, depth+1, seen) + fmt.Sprintf("#%d", x.Index)
	case *ssa.Call:
		var args []string
		for _, a := range x.Call.Args {
			args = append(args, shape(a, depth+1, seen))
		}
		if x.Call.IsInvoke() {
			return shape(x.Call.Value, depth+1, seen) + "." + x.Call.Method.Name() + "(" + strings.Join(args, ",") + ")"
		}
		name := "?"
		if f := x.Call.StaticCallee(); f != nil {
			name = f.Name()
			if f.Pkg != nil && f.Signature.Recv() == nil && !strings.HasPrefix(f.Pkg.Pkg.Path(), "github.com/segmentio") {
				name = f.Pkg.Pkg.Name() + "." + name
			}
		} else if b, ok := x.Call.Value.(*ssa.Builtin); ok {
			name = b.Name()
		} else {
			name = "(" + shape(x.Call.Value, depth+1, seen) + ")"
		}
		return name + "(" + strings.Join(args, ",") + ")"
	case *ssa.Phi:
		if seen[x] {
			return "φ"
		}
		seen[x] = true
		defer delete(seen, x)
		m := map[string]bool{}
		for _, e := range x.Edges {
			m[shape(e, depth+1, seen)] = true
		}
		var ks []string
		for k := range m {
			ks = append(ks, k)
		}
		sort.Strings(ks)
		return "φ{" + strings.Join(ks, " | ") + "}"
	case *ssa.Alloc:
		return "@" + shapeLoad(x, depth, seen)
	case *ssa.MakeMap:
		return "make(" + shapeType(x.Type()) + ")"
	case *ssa.MakeSlice:
		return "make(" + shapeType(x.Type()) + "," + shape(x.Len, depth+1, seen) + ")"
	case *ssa.Next:
		return "next(" + shape(x.Iter, depth+1, seen) + ")"
	case *ssa.Range:
		return "range(" + shape(x.X, depth+1, seen) + ")"
	case *ssa.FreeVar:
		return "free:" + x.Name()
	}
	return fmt.Sprintf("%T", v)
}

func shapeLoad(addr ssa.Value, depth int, seen map[ssa.Value]bool) string {
	switch a := addr.(type) {
	case *ssa.Alloc:
		// a local: the values stored into it
		if seen[namedKey] && a.Comment != "" {
			n := 0
			for _, r := range *a.Referrers() {
				if st, ok := r.(*ssa.Store); ok && st.Addr == ssa.Value(a) {
					n++
				}
			}
			if n >= 2 {
				return "$" + a.Comment
			}
		}
		if seen[a] {
			return "φ"
		}
		seen[a] = true
		defer delete(seen, a)
		m := map[string]bool{}
		for _, r := range *a.Referrers() {
			if st, ok := r.(*ssa.Store); ok && st.Addr == ssa.Value(a) {
				m[shape(st.Val, depth+1, seen)] = true
			}
		}
		if len(m) == 0 {
			return "local:" + shapeType(a.Type())
		}
		var ks []string
		for k := range m {
			ks = append(ks, k)
		}
		sort.Strings(ks)
		if len(ks) == 1 {
			return ks[0]
		}
		return "φ{" + strings.Join(ks, " | ") + "}"
	case *ssa.FieldAddr:
		return shape(a.X, depth+1, seen) + "." + fieldName(a.X.Type(), a.Field)
	case *ssa.IndexAddr:
		return shape(a.X, depth+1, seen) + "[" + shape(a.Index, depth+1, seen) + "]"
	case *ssa.Global:
		return a.Name()
	}
	return "*" + shape(addr, depth+1, seen)
}

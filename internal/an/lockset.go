package an

import (
	"go/token"
	"go/types"
	"sort"
	"strings"

	"golang.org/x/tools/go/callgraph"
	"golang.org/x/tools/go/ssa"
)

// LockSet is a must-held set of lock identities "Type.field" (write mode) or "R:Type.field" (read mode).
type LockSet map[string]bool

func (s LockSet) clone() LockSet {
	c := LockSet{}
	for k := range s {
		c[k] = true
	}
	return c
}

func meet(a, b LockSet) LockSet { // nil = top
	if a == nil {
		return b.clone()
	}
	if b == nil {
		return a.clone()
	}
	c := LockSet{}
	for k := range a {
		if b[k] {
			c[k] = true
		}
	}
	return c
}

func equalLS(a, b LockSet) bool {
	if (a == nil) != (b == nil) || len(a) != len(b) {
		return false
	}
	for k := range a {
		if !b[k] {
			return false
		}
	}
	return true
}

func (s LockSet) String() string {
	var ks []string
	for k := range s {
		ks = append(ks, k)
	}
	sort.Strings(ks)
	return "{" + strings.Join(ks, ",") + "}"
}

// Holds reports whether lock id is held (write mode, or read mode when readOK).
func (s LockSet) Holds(id string, readOK bool) bool {
	if s[id] {
		return true
	}
	return readOK && s["R:"+id]
}

// LockConfig carries the repository-specific facts the analysis needs.
type LockConfig struct {
	InModule func(*ssa.Function) bool
	// Aliases: a pointer-typed field holding a lock, e.g. "Batch.lock" -> "Conn.rlock".
	Aliases map[string]string
	// ReturnsHolding: function (ShortFunc name) -> lock acquired by a call to it.
	ReturnsHolding map[string]string
	// SyncInvokers: external functions that call their function arguments synchronously.
	SyncInvokers map[string]bool
	// IsAPI reports functions callable from outside the module (entry lockset is empty).
	IsAPI func(*ssa.Function) bool
	CHA   *callgraph.Graph
}

// Locksets is the result of the interprocedural must-lockset analysis.
type Locksets struct {
	cfg     LockConfig
	Fns     []*ssa.Function
	Entry   map[*ssa.Function]LockSet
	Before  map[ssa.Instruction]LockSet
	Exit    map[*ssa.Function]LockSet
	invoke  map[*ssa.Function]map[int]LockSet // state at invocations of function-typed parameter i
	Spawned map[*ssa.Function]bool            // runs on its own goroutine / asynchronously
	Rounds  int
}

func isSyncLockType(t types.Type) (mutex bool) {
	if p, ok := t.(*types.Pointer); ok {
		t = p.Elem()
	}
	n, ok := t.(*types.Named)
	if !ok || n.Obj().Pkg() == nil || n.Obj().Pkg().Path() != "sync" {
		return false
	}
	return n.Obj().Name() == "Mutex" || n.Obj().Name() == "RWMutex"
}

func structFieldID(x ssa.Value, field int) string {
	t := x.Type()
	if p, ok := t.Underlying().(*types.Pointer); ok {
		t = p.Elem()
	}
	t = types.Unalias(t)
	name := "?"
	if n, ok := t.(*types.Named); ok {
		name = n.Obj().Name()
		if n.Obj().Pkg() != nil {
			pp := n.Obj().Pkg().Path()
			pp = strings.TrimPrefix(pp, "github.com/segmentio/kafka-go/")
			if pp != "github.com/segmentio/kafka-go" {
				name = pp + "." + name
			}
		}
	}
	return name + "." + fieldName(x.Type(), field)
}

// FieldID names a struct field access "Type.field" ("pkg/rel.Type.field" outside the root package).
func FieldID(x ssa.Value, field int) string { return structFieldID(x, field) }

// ResolveLock gives the identity of the lock a value denotes ("" = unknown).
func (l *Locksets) ResolveLock(v ssa.Value) string {
	for i := 0; i < 8; i++ {
		switch x := v.(type) {
		case *ssa.FieldAddr:
			ft := x.Type().(*types.Pointer).Elem()
			if isSyncLockType(ft) {
				return structFieldID(x.X, x.Field)
			}
			return ""
		case *ssa.UnOp:
			if x.Op != token.MUL {
				return ""
			}
			if fa, ok := x.X.(*ssa.FieldAddr); ok {
				id := structFieldID(fa.X, fa.Field)
				if a, ok := l.cfg.Aliases[id]; ok {
					return a
				}
				// cond.L where cond is itself loaded from a struct field: "T.cond.L"
				if id == "sync.Cond.L" {
					if ld, ok := fa.X.(*ssa.UnOp); ok && ld.Op == token.MUL {
						if fa2, ok := ld.X.(*ssa.FieldAddr); ok {
							if a, ok := l.cfg.Aliases[structFieldID(fa2.X, fa2.Field)+".L"]; ok {
								return a
							}
						}
					}
				}
				return ""
			}
			if al, ok := x.X.(*ssa.Alloc); ok {
				// local variable holding a lock pointer: single store
				var stored ssa.Value
				n := 0
				for _, r := range *al.Referrers() {
					if s, ok := r.(*ssa.Store); ok && s.Addr == al {
						stored = s.Val
						n++
					}
				}
				if n == 1 {
					v = stored
					continue
				}
			}
			return ""
		case *ssa.MakeInterface:
			v = x.X
		case *ssa.ChangeInterface:
			v = x.X
		case *ssa.ChangeType:
			v = x.X
		case *ssa.Extract:
			if c, ok := x.Tuple.(*ssa.Call); ok {
				if f := c.Call.StaticCallee(); f != nil {
					if id, ok := l.cfg.ReturnsHolding[ShortFunc(f)]; ok {
						return id
					}
				}
			}
			return ""
		case *ssa.Phi:
			id := ""
			for _, e := range x.Edges {
				r := l.ResolveLock(e)
				if r == "" || (id != "" && r != id) {
					return ""
				}
				id = r
			}
			return id
		default:
			return ""
		}
	}
	return ""
}

// lockOp classifies a call: +1 lock, -1 unlock; read mode; the lock value.
func lockOp(c *ssa.CallCommon) (op int, read bool, lockVal ssa.Value) {
	var name string
	var recvT types.Type
	if c.IsInvoke() {
		name = c.Method.Name()
		recvT = c.Value.Type()
		lockVal = c.Value
		n, ok := recvT.(*types.Named)
		if !ok || n.Obj().Pkg() == nil || n.Obj().Pkg().Path() != "sync" || n.Obj().Name() != "Locker" {
			return 0, false, nil
		}
	} else {
		f := c.StaticCallee()
		if f == nil || f.Signature.Recv() == nil || len(c.Args) == 0 {
			return 0, false, nil
		}
		if !isSyncLockType(f.Signature.Recv().Type()) {
			return 0, false, nil
		}
		name = f.Name()
		lockVal = c.Args[0]
	}
	switch name {
	case "Lock":
		return 1, false, lockVal
	case "Unlock":
		return -1, false, lockVal
	case "RLock":
		return 1, true, lockVal
	case "RUnlock":
		return -1, true, lockVal
	}
	return 0, false, nil
}

// NewLocksets runs the analysis to a fixpoint.
func NewLocksets(all map[*ssa.Function]bool, cfg LockConfig) *Locksets {
	l := &Locksets{cfg: cfg, Entry: map[*ssa.Function]LockSet{}, Before: map[ssa.Instruction]LockSet{}, Exit: map[*ssa.Function]LockSet{},
		invoke: map[*ssa.Function]map[int]LockSet{}, Spawned: map[*ssa.Function]bool{}}
	for fn := range all {
		if fn.Blocks != nil && cfg.InModule(fn) && Unbound(fn) == fn {
			// (the wrapper of a method value is not a function of its own: the method runs in the context in which
			// the value is invoked, like a closure)
			l.Fns = append(l.Fns, fn)
		}
	}
	sort.Slice(l.Fns, func(i, j int) bool {
		if l.Fns[i].String() != l.Fns[j].String() {
			return l.Fns[i].String() < l.Fns[j].String()
		}
		return l.Fns[i].Pos() < l.Fns[j].Pos()
	})
	// entry points: API functions, functions whose address escapes, goroutine targets
	addrTaken := map[*ssa.Function]bool{}
	for _, fn := range l.Fns {
		EachInstr(fn, func(ins ssa.Instruction) {
			for _, op := range ins.Operands(nil) {
				if op == nil || *op == nil {
					continue
				}
				f, ok := (*op).(*ssa.Function)
				if !ok {
					continue
				}
				// static call position is fine
				if ci, ok := ins.(ssa.CallInstruction); ok && ci.Common().Value == ssa.Value(f) {
					if _, isGo := ins.(*ssa.Go); isGo {
						l.Spawned[f] = true
						addrTaken[f] = true
					}
					continue
				}
				addrTaken[f] = true
			}
		})
	}
	// closures that are stored or returned (anything but called, deferred, or passed as an argument)
	for _, fn := range l.Fns {
		EachInstr(fn, func(ins ssa.Instruction) {
			mc, ok := ins.(*ssa.MakeClosure)
			if !ok {
				return
			}
			f, _ := mc.Fn.(*ssa.Function)
			f = Unbound(f)
			if f == nil {
				return
			}
			for _, r := range *mc.Referrers() {
				switch x := r.(type) {
				case *ssa.Call, *ssa.Defer:
					continue
				case *ssa.Go:
					l.Spawned[f] = true
					l.Entry[f] = LockSet{}
				case *ssa.DebugRef:
				default:
					_ = x
					l.Entry[f] = LockSet{}
				}
			}
		})
	}
	for _, fn := range l.Fns {
		if fn.Parent() == nil && (cfg.IsAPI(fn) || addrTaken[fn]) {
			l.Entry[fn] = LockSet{}
		}
		if fn.Parent() == nil && strings.HasPrefix(fn.Name(), "init") {
			l.Entry[fn] = LockSet{}
		}
	}
	for round := 0; round < 40; round++ {
		l.Rounds = round + 1
		changed := false
		for _, fn := range l.Fns {
			if l.Entry[fn] == nil {
				continue
			}
			if l.process(fn, false) {
				changed = true
			}
		}
		if !changed {
			// functions never reached: give them an empty entry and continue once
			// (unreferenced top-level functions first, so that their closures still get their context)
			any := false
			for _, fn := range l.Fns {
				if l.Entry[fn] == nil && fn.Parent() == nil {
					l.Entry[fn] = LockSet{}
					any = true
				}
			}
			if !any {
				for _, fn := range l.Fns {
					if l.Entry[fn] == nil {
						l.Entry[fn] = LockSet{}
						any = true
					}
				}
			}
			if !any {
				break
			}
		}
	}
	for _, fn := range l.Fns {
		l.process(fn, true)
	}
	return l
}

func (l *Locksets) lower(fn *ssa.Function, s LockSet) bool {
	if fn == nil || fn.Blocks == nil || !l.cfg.InModule(fn) {
		return false
	}
	old := l.Entry[fn]
	nw := meet(old, s)
	if old != nil && equalLS(old, nw) {
		return false
	}
	l.Entry[fn] = nw
	return true
}

// Unbound maps the synthetic wrapper of a method value (c.method used as a func) to the method it calls: a method
// value behaves like a closure whose body is the method.
func Unbound(f *ssa.Function) *ssa.Function {
	if f == nil || f.Synthetic == "" || !strings.Contains(f.Synthetic, "bound method wrapper") {
		return f
	}
	for _, b := range f.Blocks {
		for _, ins := range b.Instrs {
			if c, ok := ins.(ssa.CallInstruction); ok {
				if callee := c.Common().StaticCallee(); callee != nil {
					return callee
				}
			}
		}
	}
	return f
}

// closureArgTargets returns the functions a value denotes when it is a closure or function literal.
func funcOfValue(v ssa.Value) *ssa.Function {
	switch x := v.(type) {
	case *ssa.MakeClosure:
		if f, ok := x.Fn.(*ssa.Function); ok {
			return Unbound(f)
		}
	case *ssa.Function:
		return Unbound(x)
	case *ssa.ChangeType:
		return funcOfValue(x.X)
	}
	return nil
}

func paramIndex(fn *ssa.Function, v ssa.Value) int {
	for i, p := range fn.Params {
		if ssa.Value(p) == v {
			return i
		}
	}
	return -1
}

func (l *Locksets) process(fn *ssa.Function, record bool) bool {
	changed := false
	in := map[*ssa.BasicBlock]LockSet{}
	in[fn.Blocks[0]] = l.Entry[fn].clone()
	if in[fn.Blocks[0]] == nil {
		in[fn.Blocks[0]] = LockSet{}
	}
	// iterate blocks to fixpoint (must analysis: start other blocks at top = nil)
	order := fn.DomPreorder()
	out := map[*ssa.BasicBlock]LockSet{}
	type deferred struct {
		ins   *ssa.Defer
		state LockSet
	}
	var exit LockSet
	var defers []deferred
	for iter := 0; iter < 20; iter++ {
		stable := true
		exit = nil
		defers = defers[:0]
		for _, b := range order {
			var st LockSet
			if b == fn.Blocks[0] {
				st = in[b].clone()
			} else {
				for _, p := range b.Preds {
					if o, ok := out[p]; ok {
						st = meet(st, o)
					}
				}
				if st == nil {
					continue // not yet reachable
				}
			}
			for _, ins := range b.Instrs {
				if record {
					l.Before[ins] = st.clone()
				}
				switch x := ins.(type) {
				case *ssa.Defer:
					if op, _, _ := lockOp(&x.Call); op != 0 {
						continue // deferred unlock: held until exit
					}
					defers = append(defers, deferred{x, st.clone()})
				case *ssa.Go:
					for _, t := range l.targets(fn, x) {
						l.Spawned[t] = true
						if l.lower(t, LockSet{}) {
							changed = true
						}
					}
					// closures passed as arguments to a goroutine run asynchronously as well
					for _, a := range x.Call.Args {
						if f := funcOfValue(a); f != nil {
							l.Spawned[f] = true
							if l.lower(f, LockSet{}) {
								changed = true
							}
						}
					}
				case *ssa.Call:
					if op, read, lv := lockOp(&x.Call); op != 0 {
						id := l.ResolveLock(lv)
						if id == "" {
							continue
						}
						if read {
							id = "R:" + id
						}
						if op > 0 {
							st[id] = true
						} else {
							delete(st, id)
						}
						continue
					}
					if f := x.Call.StaticCallee(); f != nil {
						if id, ok := l.cfg.ReturnsHolding[ShortFunc(f)]; ok {
							// the callee runs with the caller's locks; afterwards the lock is held
							if l.lower(f, st) {
								changed = true
							}
							st[id] = true
							continue
						}
					}
					if l.call(fn, x, st) {
						changed = true
					}
				case *ssa.Return:
					exit = meet(exit, st)
				}
			}
			if o, ok := out[b]; !ok || !equalLS(o, st) {
				out[b] = st
				stable = false
			}
		}
		if stable {
			break
		}
	}
	if exit == nil {
		exit = LockSet{}
	}
	l.Exit[fn] = exit
	// deferred calls run at exit; locks whose deferred Unlock was registered later are already released
	for _, d := range defers {
		st := exit.clone()
		EachInstr(fn, func(ins ssa.Instruction) {
			d2, ok := ins.(*ssa.Defer)
			if !ok || d2 == d.ins {
				return
			}
			if op, read, lv := lockOp(&d2.Call); op < 0 {
				if Dominates(d.ins, d2) || !Dominates(d2, d.ins) {
					id := l.ResolveLock(lv)
					if read {
						id = "R:" + id
					}
					delete(st, id)
				}
			}
		})
		if record {
			// expose the state in which the deferred call executes
			l.Before[d.ins] = st.clone()
		}
		if l.callCommon(fn, &d.ins.Call, d.ins, st) {
			changed = true
		}
	}
	return changed
}

// targets resolves the module functions a call instruction may invoke.
func (l *Locksets) targets(fn *ssa.Function, ci ssa.CallInstruction) []*ssa.Function {
	c := ci.Common()
	if f := c.StaticCallee(); f != nil {
		return []*ssa.Function{f}
	}
	var out []*ssa.Function
	if !c.IsInvoke() {
		// call through a function value: parameters are handled by the invocation-context summary,
		// escaping closures start with an empty lockset (see NewLocksets)
		return nil
	}
	if l.cfg.CHA != nil {
		if n := l.cfg.CHA.Nodes[fn]; n != nil {
			for _, e := range n.Out {
				if e.Site == ci && l.cfg.InModule(e.Callee.Func) {
					out = append(out, e.Callee.Func)
				}
			}
		}
	}
	return out
}

func (l *Locksets) call(fn *ssa.Function, x *ssa.Call, st LockSet) bool {
	return l.callCommon(fn, &x.Call, x, st)
}

func (l *Locksets) callCommon(fn *ssa.Function, c *ssa.CallCommon, ci ssa.CallInstruction, st LockSet) bool {
	changed := false
	// invocation of a function-typed parameter of fn
	if !c.IsInvoke() {
		if pi := paramIndex(fn, c.Value); pi >= 0 {
			m := l.invoke[fn]
			if m == nil {
				m = map[int]LockSet{}
				l.invoke[fn] = m
			}
			nw := meet(m[pi], st)
			if m[pi] == nil || !equalLS(m[pi], nw) {
				m[pi] = nw
				changed = true
			}
		}
	}
	tgts := l.targets(fn, ci)
	for _, t := range tgts {
		if l.lower(t, st) {
			changed = true
		}
	}
	// function values passed as arguments
	for ai, a := range c.Args {
		f := funcOfValue(a)
		pIdx := paramIndex(fn, a) // forwarding one of our own function parameters
		if f == nil && pIdx < 0 {
			continue
		}
		if _, isFn := a.Type().Underlying().(*types.Signature); !isFn {
			continue
		}
		var ctx LockSet // nil = unknown yet
		known := false
		callee := c.StaticCallee()
		switch {
		case callee != nil && l.cfg.InModule(callee) && callee.Blocks != nil:
			argPos := ai
			if l.paramEscapes(callee, argPos) {
				// stored, captured or started on a goroutine: runs in an unknown context
				ctx, known = LockSet{}, true
			} else if inv, ok := l.invoke[callee]; ok {
				if s, ok := inv[argPos]; ok {
					// invoked synchronously: the caller's locks are still held, plus what the callee took
					ctx = st.clone()
					for k := range s {
						ctx[k] = true
					}
					known = true
				}
			}
		case callee != nil && l.cfg.SyncInvokers[ShortFunc(callee)]:
			ctx, known = st, true
		default:
			ctx, known = LockSet{}, true
			if f != nil {
				l.Spawned[f] = true
			}
		}
		if !known {
			continue
		}
		if f != nil {
			if l.lower(f, ctx) {
				changed = true
			}
		} else if pIdx >= 0 {
			m := l.invoke[fn]
			if m == nil {
				m = map[int]LockSet{}
				l.invoke[fn] = m
			}
			nw := meet(m[pIdx], ctx)
			if m[pIdx] == nil || !equalLS(m[pIdx], nw) {
				m[pIdx] = nw
				changed = true
			}
		}
	}
	return changed
}

// paramEscapes reports whether function parameter i of fn is used other than by calling it or
// forwarding it as a call argument.
func (l *Locksets) paramEscapes(fn *ssa.Function, i int) bool {
	if i >= len(fn.Params) {
		return true
	}
	p := fn.Params[i]
	for _, r := range *p.Referrers() {
		switch x := r.(type) {
		case *ssa.Call:
			continue
		case *ssa.Defer:
			continue
		case *ssa.DebugRef:
			continue
		case *ssa.Go:
			return true
		default:
			_ = x
			return true
		}
	}
	return false
}

// AccessKind classifies how an address of a field is used.
type AccessKind int

const (
	AccNone AccessKind = 0
	AccRead AccessKind = 1 << iota
	AccWrite
	AccAtomic
	AccUse // method call on / address passed: treated like a write for guarded data
	AccLockOp
)

func (k AccessKind) String() string {
	var s []string
	if k&AccRead != 0 {
		s = append(s, "read")
	}
	if k&AccWrite != 0 {
		s = append(s, "write")
	}
	if k&AccAtomic != 0 {
		s = append(s, "atomic")
	}
	if k&AccUse != 0 {
		s = append(s, "use")
	}
	if k&AccLockOp != 0 {
		s = append(s, "lockop")
	}
	if len(s) == 0 {
		return "none"
	}
	return strings.Join(s, "+")
}

// ClassifyAddr determines how the address value addr (of a field) is used.
func ClassifyAddr(addr ssa.Value, depth int) AccessKind {
	var k AccessKind
	refs := addr.Referrers()
	if refs == nil || depth > 4 {
		return AccUse
	}
	for _, r := range *refs {
		switch x := r.(type) {
		case *ssa.Store:
			if x.Addr == addr {
				k |= AccWrite
			} else {
				k |= AccUse // address stored somewhere
			}
		case *ssa.UnOp:
			if x.Op == token.MUL {
				k |= AccRead
				// map/slice writes through the loaded header
				k |= classifyLoaded(x)
			}
		case *ssa.FieldAddr:
			k |= ClassifyAddr(x, depth+1)
		case *ssa.IndexAddr:
			k |= ClassifyAddr(x, depth+1)
		case ssa.CallInstruction:
			c := x.Common()
			if f := c.StaticCallee(); f != nil && f.Pkg != nil && f.Pkg.Pkg.Path() == "sync/atomic" {
				k |= AccAtomic
				continue
			}
			if op, _, _ := lockOp(c); op != 0 {
				k |= AccLockOp
				continue
			}
			k |= AccUse
		case *ssa.DebugRef:
		case *ssa.MakeInterface, *ssa.ChangeType, *ssa.Convert, *ssa.Phi, *ssa.MakeClosure, *ssa.Slice:
			k |= AccUse
		default:
			k |= AccUse
		}
	}
	return k
}

func classifyLoaded(load *ssa.UnOp) AccessKind {
	var k AccessKind
	switch load.Type().Underlying().(type) {
	case *types.Map, *types.Slice:
	default:
		return 0
	}
	for _, r := range *load.Referrers() {
		switch x := r.(type) {
		case *ssa.MapUpdate:
			if x.Map == ssa.Value(load) {
				k |= AccWrite
			}
		case *ssa.Call:
			if b, ok := x.Call.Value.(*ssa.Builtin); ok && b.Name() == "delete" && len(x.Call.Args) > 0 && x.Call.Args[0] == ssa.Value(load) {
				k |= AccWrite
			}
		case *ssa.IndexAddr:
			if ClassifyAddr(x, 1)&(AccWrite|AccUse) != 0 {
				k |= AccWrite
			}
		}
	}
	return k
}

// FreshBase reports whether the object whose field is accessed was allocated in the same function
// (constructor context: not yet published).
func FreshBase(v ssa.Value) bool {
	for i := 0; i < 6; i++ {
		switch x := v.(type) {
		case *ssa.Alloc:
			return true
		case *ssa.FieldAddr:
			v = x.X
		case *ssa.IndexAddr:
			v = x.X
		case *ssa.UnOp:
			if x.Op != token.MUL {
				return false
			}
			// load of a local variable that only ever holds a fresh allocation
			al, ok := x.X.(*ssa.Alloc)
			if !ok {
				return false
			}
			n, fresh := 0, 0
			for _, r := range *al.Referrers() {
				if s, ok := r.(*ssa.Store); ok && s.Addr == al {
					n++
					if _, ok := s.Val.(*ssa.Alloc); ok {
						fresh++
					}
				}
			}
			return n > 0 && n == fresh
		case *ssa.Phi:
			for _, e := range x.Edges {
				if !FreshBase(e) {
					return false
				}
			}
			return true
		default:
			return false
		}
	}
	return false
}

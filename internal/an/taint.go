package an

import (
	"fmt"
	"go/token"
	"go/types"
	"sort"
	"strconv"
	"strings"

	"golang.org/x/tools/go/ssa"
)

// TaintConfig describes sources and the trusted bound expressions.
type TaintConfig struct {
	IsSource func(c *ssa.Call) (desc string, ok bool) // wire-read length
	InScope  func(fn *ssa.Function) bool
	// IsBoundExpr reports values that are legitimate upper bounds (the decoder's remaining byte count, len(x), constants).
	IsBoundExpr func(v ssa.Value) bool
	// Sanitized reports instructions at which wire values are already trusted (e.g. dominated by a
	// verified checksum): taint does not flow out of them into fields or callees.
	Sanitized func(ins ssa.Instruction) bool
	// BoundFields are field names whose stores are sinks and whose loads are bound expressions (never tainted).
	BoundFields map[string]bool
	// OutOfScopeEdge reports that the i-th incoming edge of a φ-node lies on a path the property does not quantify
	// over (with the reason); on such an edge a bound may be vacuous (the value bounds itself).
	OutOfScopeEdge func(phi *ssa.Phi, i int) (string, bool)
	// OutSource reports calls that deliver a wire value through a pointer argument (hand-written readers of the
	// form readInt32(r, sz, &v)): the local variable whose address is passed holds a wire value afterwards.
	OutSource func(c *ssa.Call) (arg int, desc string, ok bool)
}

// TaintSink is one use of a wire-derived length in a dangerous position.
type TaintSink struct {
	Fn     *ssa.Function
	Ins    ssa.Instruction
	Kind   string // make-len, make-cap, slice-bound, index, store-remain, loop-count, reflect-makeslice
	Val    ssa.Value
	Source string // description of the taint root
	Lo, Hi bool
	Why    []string
}

type taintState struct {
	cfg     TaintConfig
	fns     []*ssa.Function
	tainted map[ssa.Value]string // value -> source description
	fields  map[string]string    // "Type.field" -> source
	// bounds already guaranteed for a parameter by every call site
	paramLo, paramHi map[*ssa.Parameter]bool
	callers          map[*ssa.Function][]*ssa.Call
}

// RunTaint propagates wire-length taint through the functions in scope and returns the sinks.
func RunTaint(all []*ssa.Function, cfg TaintConfig) []TaintSink {
	st := &taintState{cfg: cfg, tainted: map[ssa.Value]string{}, fields: map[string]string{}, paramLo: map[*ssa.Parameter]bool{}, paramHi: map[*ssa.Parameter]bool{}, callers: map[*ssa.Function][]*ssa.Call{}}
	for _, fn := range all {
		if fn.Blocks != nil && cfg.InScope(fn) {
			st.fns = append(st.fns, fn)
		}
	}
	for _, fn := range st.fns {
		EachInstr(fn, func(ins ssa.Instruction) {
			if c, ok := ins.(*ssa.Call); ok {
				if callee := c.Call.StaticCallee(); callee != nil && callee.Blocks != nil && cfg.InScope(callee) {
					st.callers[callee] = append(st.callers[callee], c)
				}
			}
		})
	}
	sort.Slice(st.fns, func(i, j int) bool {
		if st.fns[i].String() != st.fns[j].String() {
			return st.fns[i].String() < st.fns[j].String()
		}
		return st.fns[i].Pos() < st.fns[j].Pos()
	})
	// propagate to a fixpoint
	for round := 0; round < 30; round++ {
		changed := false
		for _, fn := range st.fns {
			EachInstr(fn, func(ins ssa.Instruction) {
				if st.step(fn, ins) {
					changed = true
				}
			})
		}
		if !changed {
			break
		}
	}
	// parameter bounds: hold when every call site establishes them (iterated, since callers may rely on their own params)
	for round := 0; round < 6; round++ {
		for _, fn := range st.fns {
			for i, prm := range fn.Params {
				if _, ok := st.tainted[prm]; !ok {
					continue
				}
				sites := st.callers[fn]
				lo, hi := len(sites) > 0, len(sites) > 0
				for _, c := range sites {
					if i >= len(c.Call.Args) {
						lo, hi = false, false
						continue
					}
					a := c.Call.Args[i]
					if _, t := st.tainted[a]; !t {
						continue // untainted argument: not a wire length
					}
					l, h, _ := st.boundsAt(a, c)
					lo = lo && l
					hi = hi && h
				}
				st.paramLo[prm], st.paramHi[prm] = lo, hi
			}
		}
	}
	var sinks []TaintSink
	for _, fn := range st.fns {
		sinks = append(sinks, st.sinksOf(fn)...)
	}
	sort.SliceStable(sinks, func(i, j int) bool {
		if sinks[i].Fn.String() != sinks[j].Fn.String() {
			return sinks[i].Fn.String() < sinks[j].Fn.String()
		}
		return sinks[i].Ins.Pos() < sinks[j].Ins.Pos()
	})
	return sinks
}

func (st *taintState) mark(v ssa.Value, src string) bool {
	if _, ok := st.tainted[v]; ok {
		return false
	}
	st.tainted[v] = src
	return true
}

func isIntegral(t types.Type) bool {
	b, ok := t.Underlying().(*types.Basic)
	return ok && b.Info()&types.IsInteger != 0
}

func (st *taintState) step(fn *ssa.Function, ins ssa.Instruction) bool {
	changed := false
	switch x := ins.(type) {
	case *ssa.Call:
		if st.cfg.IsSource != nil {
			if d, ok := st.cfg.IsSource(x); ok {
				if st.mark(x, d) {
					changed = true
				}
			}
		}
		if st.cfg.OutSource != nil {
			if i, d, ok := st.cfg.OutSource(x); ok && i < len(x.Call.Args) {
				if a, isAlloc := x.Call.Args[i].(*ssa.Alloc); isAlloc {
					changed = st.mark(a, d) || changed
				}
			}
		}
		// arguments into in-scope callees taint the parameters
		if callee := x.Call.StaticCallee(); callee != nil && callee.Blocks != nil && st.cfg.InScope(callee) && !(st.cfg.Sanitized != nil && st.cfg.Sanitized(x)) {
			for i, a := range x.Call.Args {
				if src, ok := st.tainted[a]; ok && i < len(callee.Params) && isIntegral(callee.Params[i].Type()) {
					_ = src
					if st.mark(callee.Params[i], "wire length via parameter "+callee.Params[i].Name()) {
						changed = true
					}
				}
			}
		}
		// closures: free variables bound to tainted cells are handled through Alloc stores below
	case *ssa.Convert:
		if src, ok := st.tainted[x.X]; ok && isIntegral(x.Type()) {
			changed = st.mark(x, src) || changed
		}
	case *ssa.ChangeType:
		if src, ok := st.tainted[x.X]; ok {
			changed = st.mark(x, src) || changed
		}
	case *ssa.BinOp:
		if x.Op == token.SUB && st.guardedLE(x.Y, x.X, x) {
			// x - y under a dominating guard y <= x: the difference lies in [0, x]
			break
		}
		switch x.Op {
		case token.ADD, token.SUB, token.MUL, token.SHL, token.SHR, token.AND, token.OR, token.XOR, token.QUO:
			for _, o := range []ssa.Value{x.X, x.Y} {
				if src, ok := st.tainted[o]; ok && isIntegral(x.Type()) {
					changed = st.mark(x, src) || changed
				}
			}
		}
	case *ssa.Phi:
		for _, e := range x.Edges {
			if src, ok := st.tainted[e]; ok {
				changed = st.mark(x, src) || changed
			}
		}
	case *ssa.Store:
		if src, ok := st.tainted[x.Val]; ok {
			switch a := x.Addr.(type) {
			case *ssa.FieldAddr:
				id := FieldID(a.X, a.Field)
				if st.cfg.BoundFields[FieldName(a.X.Type(), a.Field)] || (st.cfg.Sanitized != nil && st.cfg.Sanitized(x)) {
					break
				}
				if _, ok := st.fields[id]; !ok {
					st.fields[id] = src
					changed = true
				}
			case *ssa.Alloc:
				changed = st.mark(a, src) || changed
			}
		}
	case *ssa.UnOp:
		if x.Op == token.MUL {
			switch a := x.X.(type) {
			case *ssa.FieldAddr:
				if src, ok := st.fields[FieldID(a.X, a.Field)]; ok && isIntegral(x.Type()) {
					changed = st.mark(x, src) || changed
				}
			case *ssa.Alloc:
				if src, ok := st.tainted[a]; ok && isIntegral(x.Type()) {
					changed = st.mark(x, src) || changed
				}
			}
		}
	case *ssa.Extract:
		if src, ok := st.tainted[x.Tuple]; ok && isIntegral(x.Type()) {
			changed = st.mark(x, src) || changed
		}
	}
	return changed
}

func (st *taintState) sinksOf(fn *ssa.Function) []TaintSink {
	var out []TaintSink
	add := func(ins ssa.Instruction, kind string, v ssa.Value) {
		src, ok := st.tainted[v]
		if !ok {
			return
		}
		lo, hi, why := st.boundsAt(v, ins)
		out = append(out, TaintSink{Fn: fn, Ins: ins, Kind: kind, Val: v, Source: src, Lo: lo, Hi: hi, Why: why})
	}
	EachInstr(fn, func(ins ssa.Instruction) {
		switch x := ins.(type) {
		case *ssa.MakeSlice:
			add(ins, "make-len", x.Len)
			if x.Cap != x.Len {
				add(ins, "make-cap", x.Cap)
			}
		case *ssa.MakeMap:
			if x.Reserve != nil {
				add(ins, "makemap-hint", x.Reserve)
			}
		case *ssa.Slice:
			if x.Low != nil {
				add(ins, "slice-low", x.Low)
			}
			if x.High != nil {
				add(ins, "slice-high", x.High)
			}
		case *ssa.Store:
			if fa, ok := x.Addr.(*ssa.FieldAddr); ok && FieldName(fa.X.Type(), fa.Field) == "remain" {
				add(ins, "store-remain", x.Val)
			}
		case *ssa.Call:
			if f := x.Call.StaticCallee(); f != nil && f.Pkg != nil && f.Pkg.Pkg.Path() == "reflect" && f.Name() == "MakeSlice" {
				add(ins, "reflect-makeslice", x.Call.Args[1])
			}
			// the `unsafe` build variant allocates arrays through the runtime's unsafe_NewArray
			if f := x.Call.StaticCallee(); f != nil && f.Name() == "unsafe_NewArray" && len(x.Call.Args) == 2 {
				add(ins, "reflect-makeslice", x.Call.Args[1])
			}
		case *ssa.If:
			// loop whose trip count is a wire value and whose body has no other exit
			bo, ok := x.Cond.(*ssa.BinOp)
			if !ok {
				return
			}
			// a loop counting a wire value down to a constant: `for n := <wire>; n > 0; n--`
			var down *ssa.Phi
			if ph, isPhi := bo.X.(*ssa.Phi); isPhi && (bo.Op == token.GTR || bo.Op == token.GEQ || bo.Op == token.NEQ) {
				if _, isC := bo.Y.(*ssa.Const); isC {
					down = ph
				}
			}
			if ph, isPhi := bo.Y.(*ssa.Phi); isPhi && (bo.Op == token.LSS || bo.Op == token.LEQ || bo.Op == token.NEQ) {
				if _, isC := bo.X.(*ssa.Const); isC {
					down = ph
				}
			}
			if down != nil && down.Block() == x.Block() {
				if _, t := st.tainted[down]; t {
					blk := x.Block()
					if (reaches(blk.Succs[0], blk, blk) || reaches(blk.Succs[1], blk, blk)) && !st.loopHasStateExit(blk) {
						for _, e := range down.Edges {
							if step, isStep := e.(*ssa.BinOp); isStep && (step.X == ssa.Value(down) || step.Y == ssa.Value(down)) {
								continue
							}
							if src, t := st.tainted[e]; t {
								lo, hi, why := st.boundsAt(e, x)
								out = append(out, TaintSink{Fn: fn, Ins: ins, Kind: "loop-count", Val: e, Source: src, Lo: true, Hi: hi, Why: append(why, fmt.Sprintf("counted down from a wire value; lo irrelevant for a trip count (computed %v)", lo))})
							}
						}
					}
				}
				return
			}
			if bo.Op != token.LSS && bo.Op != token.LEQ && bo.Op != token.NEQ {
				return
			}
			if _, isPhi := bo.X.(*ssa.Phi); !isPhi {
				return
			}
			if _, t := st.tainted[bo.Y]; !t {
				return
			}
			blk := x.Block()
			// is it a loop header? a successor leads back to blk
			body := blk.Succs[0]
			if !reaches(body, blk, blk) {
				return
			}
			if st.loopHasStateExit(blk) {
				return
			}
			src := st.tainted[bo.Y]
			lo, hi, why := st.boundsAt(bo.Y, x)
			// a bound by the remaining bytes does not bound the time the loop takes once the decoder has failed
			// (reads return at once, `remain` stops moving): only a bound by a constant or 16-bit value does
			if hi && !boundedByConstant(why) {
				hi = false
				why = append(why, "the count is bounded by the remaining bytes only, and nothing in the loop tests the decoder's error state: after a short read it runs for the whole count")
			}
			out = append(out, TaintSink{Fn: fn, Ins: ins, Kind: "loop-count", Val: bo.Y, Source: src, Lo: true, Hi: hi, Why: append(why, fmt.Sprintf("lo irrelevant for a trip count (computed %v)", lo))})
		}
	})
	return out
}

func stripConv(v ssa.Value) ssa.Value {
	for {
		switch x := v.(type) {
		case *ssa.Convert:
			// only value-preserving (widening, same signedness or signed from narrower) conversions
			if intBits(x.Type()) >= intBits(x.X.Type()) && (isUnsigned(x.Type()) == isUnsigned(x.X.Type()) || (!isUnsigned(x.Type()) && intBits(x.Type()) > intBits(x.X.Type()))) {
				v = x.X
				continue
			}
			return v
		case *ssa.ChangeType:
			v = x.X
		default:
			return v
		}
	}
}

// guardedLE reports whether a dominating branch establishes small <= big at instruction at.
func (st *taintState) guardedLE(small, big ssa.Value, at ssa.Instruction) bool {
	s0, b0 := stripConv(small), stripConv(big)
	blk := at.Block()
	for d, child := blk.Idom(), blk; d != nil; d, child = d.Idom(), d {
		iff, ci := IfCond(d)
		if iff == nil || ci == nil || ci.Op == token.ILLEGAL {
			continue
		}
		var onTrue bool
		switch {
		case d.Succs[0] == child || (d.Succs[0].Dominates(child) && len(d.Succs[0].Preds) == 1):
			onTrue = true
		case d.Succs[1] == child || (d.Succs[1].Dominates(child) && len(d.Succs[1].Preds) == 1):
			onTrue = false
		default:
			continue
		}
		if ci.Neg {
			onTrue = !onTrue
		}
		op := ci.Op
		if !onTrue {
			op = negate(op)
		}
		x, y := stripConv(ci.X), stripConv(ci.Y)
		if x == s0 && y == b0 && (op == token.LEQ || op == token.LSS) {
			return true
		}
		if x == b0 && y == s0 && (op == token.GEQ || op == token.GTR) {
			return true
		}
	}
	return false
}

func reaches(from, to, stop *ssa.BasicBlock) bool {
	seen := map[*ssa.BasicBlock]bool{}
	var walk func(b *ssa.BasicBlock) bool
	walk = func(b *ssa.BasicBlock) bool {
		if b == to {
			return true
		}
		if seen[b] {
			return false
		}
		seen[b] = true
		for _, s := range b.Succs {
			if walk(s) {
				return true
			}
		}
		return false
	}
	return walk(from)
}

// loopHasStateExit: some block of the loop headed by h tests the decoder state (remain / err) and can leave the loop.
func (st *taintState) loopHasStateExit(h *ssa.BasicBlock) bool {
	// the loop containing h: the blocks on a cycle through h (h need not be the header: `a && i < n` tests the
	// state condition a first)
	fwd := map[*ssa.BasicBlock]bool{}
	var f func(b *ssa.BasicBlock)
	f = func(b *ssa.BasicBlock) {
		for _, s := range b.Succs {
			if !fwd[s] {
				fwd[s] = true
				f(s)
			}
		}
	}
	f(h)
	bwd := map[*ssa.BasicBlock]bool{}
	var g func(b *ssa.BasicBlock)
	g = func(b *ssa.BasicBlock) {
		for _, p := range b.Preds {
			if !bwd[p] {
				bwd[p] = true
				g(p)
			}
		}
	}
	g(h)
	inLoop := map[*ssa.BasicBlock]bool{h: true}
	for b := range fwd {
		if bwd[b] {
			inLoop[b] = true
		}
	}
	for b := range inLoop {
		iff, ci := IfCond(b)
		if iff == nil || ci == nil {
			continue
		}
		exits := false
		for _, s := range b.Succs {
			if !inLoop[s] {
				exits = true
			}
		}
		if !exits {
			continue
		}
		// The exit must depend on the decoder having failed: once the stream ends early the sticky error is set and
		// `remain` stops decreasing, so a test of `remain` alone lets the loop run for its whole announced count.
		// Accepted: a test of the err field, a call of a method that tests it (done()), or — for loops over
		// something other than the decoder — a length/capacity bound.
		for _, v := range []ssa.Value{ci.X, ci.Y} {
			if _, isConst := v.(*ssa.Const); isConst || v == nil {
				continue // a comparison with a constant says nothing about the decoder state by itself
			}
			if ld, ok := v.(*ssa.UnOp); ok && ld.Op == token.MUL {
				if fa, ok := ld.X.(*ssa.FieldAddr); ok && FieldName(fa.X.Type(), fa.Field) == "err" {
					return true
				}
			}
			// an exit on a local error value (the hand-written readers return their error instead of keeping it
			// in a decoder): the loop ends with the first failed read
			if types.Identical(v.Type(), types.Universe.Lookup("error").Type()) {
				return true
			}
			if c, ok := v.(*ssa.Call); ok {
				if b, isB := c.Call.Value.(*ssa.Builtin); isB && (b.Name() == "len" || b.Name() == "cap") {
					return true
				}
				if testsErrField(c.Call.StaticCallee()) {
					return true
				}
			}
		}
		if ci.Op == token.ILLEGAL {
			// `for … && !d.done()`: the condition is the (negated) call itself
			if c, ok := ci.X.(*ssa.Call); ok && testsErrField(c.Call.StaticCallee()) {
				return true
			}
		}
	}
	return false
}

// chainElem is a value related to the sink value: sink = elem (+ off) modulo integer conversions.
type chainElem struct {
	v        ssa.Value
	off      int64 // sink = v + off
	unsigned bool
}

func isUnsigned(t types.Type) bool {
	b, ok := t.Underlying().(*types.Basic)
	return ok && b.Info()&types.IsUnsigned != 0
}

func intBits(t types.Type) int {
	b, ok := t.Underlying().(*types.Basic)
	if !ok {
		return 64
	}
	switch b.Kind() {
	case types.Int8, types.Uint8:
		return 8
	case types.Int16, types.Uint16:
		return 16
	case types.Int32, types.Uint32:
		return 32
	}
	return 64
}

// boundsAt decides whether value v is known to be >= 0 and bounded above at instruction `at`.
func (st *taintState) boundsAt(v ssa.Value, at ssa.Instruction) (lo, hi bool, why []string) {
	// chain of related values
	var chain []chainElem
	cur, off := v, int64(0)
	crossedUnsignedToSigned := false
	for i := 0; i < 12; i++ {
		chain = append(chain, chainElem{cur, off, isUnsigned(cur.Type())})
		switch x := cur.(type) {
		case *ssa.Convert:
			if isUnsigned(x.X.Type()) && !isUnsigned(x.Type()) && intBits(x.X.Type()) >= intBits(x.Type()) {
				crossedUnsignedToSigned = true
			}
			cur = x.X
			continue
		case *ssa.ChangeType:
			cur = x.X
			continue
		case *ssa.BinOp:
			if c, ok := ConstInt(x.Y); ok && (x.Op == token.ADD || x.Op == token.SUB) {
				if x.Op == token.ADD {
					off += c
				} else {
					off -= c
				}
				cur = x.X
				continue
			}
		case *ssa.UnOp:
			// load of a local variable with a single store
			if x.Op == token.MUL {
				if al, ok := x.X.(*ssa.Alloc); ok {
					var stored ssa.Value
					n := 0
					for _, r := range *al.Referrers() {
						if s, ok := r.(*ssa.Store); ok && s.Addr == al {
							stored = s.Val
							n++
						}
					}
					if n == 1 {
						cur = stored
						continue
					}
				}
			}
		}
		break
	}
	root := chain[len(chain)-1]
	// intrinsic bounds of the root
	if prm, ok := root.v.(*ssa.Parameter); ok {
		if st.paramLo[prm] && root.off >= 0 {
			lo = true
			why = append(why, "every caller passes a non-negative value")
		}
		if st.paramHi[prm] {
			hi = true
			why = append(why, "every caller passes a bounded value")
		}
	}
	if intBits(root.v.Type()) <= 16 {
		hi = true
		why = append(why, "fixed-width 16-bit value")
	}
	if root.unsigned && !crossedUnsignedToSigned && root.off >= 0 {
		lo = true
		why = append(why, "unsigned value")
	}
	// min(x, bound)
	if c, ok := v.(*ssa.Call); ok {
		if b, ok := c.Call.Value.(*ssa.Builtin); ok && b.Name() == "min" {
			hi = true
		}
	}
	// dominating branch conditions
	blk := at.Block()
	for d, child := blk.Idom(), blk; d != nil; d, child = d.Idom(), d {
		iff, ci := IfCond(d)
		if iff == nil || ci == nil || ci.Op == token.ILLEGAL {
			continue
		}
		var onTrue bool
		switch {
		case d.Succs[0] == child || (d.Succs[0].Dominates(child) && !d.Succs[1].Dominates(child) && len(d.Succs[0].Preds) == 1):
			onTrue = true
		case d.Succs[1] == child || (d.Succs[1].Dominates(child) && len(d.Succs[1].Preds) == 1):
			onTrue = false
		default:
			continue
		}
		if ci.Neg {
			onTrue = !onTrue
		}
		op := ci.Op
		if !onTrue {
			op = negate(op)
		}
		st.applyCond(chain, ci.X, op, ci.Y, &lo, &hi, &why, crossedUnsignedToSigned)
		st.applyCond(chain, ci.Y, flip(op), ci.X, &lo, &hi, &why, crossedUnsignedToSigned)
	}
	// an upper bound established on the unsigned value before conversion also gives the lower bound of the signed value
	return
}

func negate(op token.Token) token.Token {
	switch op {
	case token.LSS:
		return token.GEQ
	case token.LEQ:
		return token.GTR
	case token.GTR:
		return token.LEQ
	case token.GEQ:
		return token.LSS
	case token.EQL:
		return token.NEQ
	case token.NEQ:
		return token.EQL
	}
	return token.ILLEGAL
}

func flip(op token.Token) token.Token {
	switch op {
	case token.LSS:
		return token.GTR
	case token.LEQ:
		return token.GEQ
	case token.GTR:
		return token.LSS
	case token.GEQ:
		return token.LEQ
	}
	return op
}

// applyCond: the fact `x op y` holds at the sink; x may be an element of the chain.
func (st *taintState) applyCond(chain []chainElem, x ssa.Value, op token.Token, y ssa.Value, lo, hi *bool, why *[]string, crossed bool) {
	xs := stripConv(x)
	for _, e := range chain {
		if e.v != x && !sameExpr(e.v, x) && !(sameExpr(stripConv(e.v), xs) && e.off == chainOff(chain, stripConv(e.v), e.off)) {
			continue
		}
		// sink = x + e.off
		if k, ok := ConstInt(y); ok {
			switch op {
			case token.GEQ: // x >= k  ⇒ sink >= k + off
				if k+e.off >= 0 && !(e.unsigned && crossed) {
					*lo = true
					*why = append(*why, fmt.Sprintf("guard %s >= %d", x.Name(), k))
				}
			case token.GTR:
				if k+1+e.off >= 0 && !(e.unsigned && crossed) {
					*lo = true
					*why = append(*why, fmt.Sprintf("guard %s > %d", x.Name(), k))
				}
			case token.LEQ, token.LSS, token.EQL:
				*hi = true
				*why = append(*why, fmt.Sprintf("guard %s %s %d", x.Name(), op, k))
				if e.unsigned && crossed && k < (1<<62) {
					*lo = *lo || e.off >= -k // unsigned value below a small constant converts to a non-negative int
				}
			}
			return
		}
		if st.cfg.IsBoundExpr(y) || st.isBoundedValue(y) {
			switch op {
			case token.LEQ, token.LSS:
				*hi = true
				*why = append(*why, fmt.Sprintf("guard %s %s %s", x.Name(), op, describeBound(y)))
				if e.unsigned && crossed {
					*lo = true
				}
			}
		} else if ph, isPhi := y.(*ssa.Phi); isPhi && (op == token.LEQ || op == token.LSS) {
			// a bound chosen per path: every alternative is a bound, except on paths outside the property's scope
			all, notes := true, []string{}
			for i, alt := range ph.Edges {
				switch {
				case st.cfg.IsBoundExpr(alt) || st.isBoundedValue(alt):
				case st.cfg.OutOfScopeEdge != nil && sameExpr(stripConv(alt), xs):
					if why2, ok := st.cfg.OutOfScopeEdge(ph, i); ok {
						notes = append(notes, why2)
					} else {
						all = false
					}
				default:
					all = false
				}
			}
			if all {
				*hi = true
				*why = append(*why, fmt.Sprintf("guard %s %s a bound chosen per path", x.Name(), op))
				*why = append(*why, notes...)
				if e.unsigned && crossed {
					*lo = true
				}
			}
		}
	}
}

// isBoundedValue: y is itself derived from a bound expression (e.g. uint64(d.remain), limit := d.remain).
func (st *taintState) isBoundedValue(y ssa.Value) bool {
	for i := 0; i < 6; i++ {
		if st.cfg.IsBoundExpr(y) {
			return true
		}
		switch x := y.(type) {
		case *ssa.Convert:
			y = x.X
		case *ssa.ChangeType:
			y = x.X
		case *ssa.BinOp:
			if _, ok := ConstInt(x.Y); ok {
				y = x.X
				continue
			}
			return false
		default:
			return false
		}
	}
	return false
}

// sameExpr: structural equality of pure integer expressions (go/ssa performs no CSE).
func sameExpr(a, b ssa.Value) bool {
	if a == b {
		return true
	}
	switch x := a.(type) {
	case *ssa.Convert:
		y, ok := b.(*ssa.Convert)
		return ok && types.Identical(x.Type(), y.Type()) && sameExpr(x.X, y.X)
	case *ssa.BinOp:
		y, ok := b.(*ssa.BinOp)
		return ok && x.Op == y.Op && sameExpr(x.X, y.X) && sameExpr(x.Y, y.Y)
	case *ssa.Const:
		y, ok := b.(*ssa.Const)
		if !ok {
			return false
		}
		ca, oka := ConstInt(x)
		cb, okb := ConstInt(y)
		return oka && okb && ca == cb
	case *ssa.UnOp:
		// two loads of one local variable with every write to it (a store, or a call that is handed its address)
		// before both of them
		y, ok := b.(*ssa.UnOp)
		if !ok || x.Op != token.MUL || y.Op != token.MUL || x.X != y.X {
			return false
		}
		al, isAlloc := x.X.(*ssa.Alloc)
		if !isAlloc || al.Referrers() == nil {
			return false
		}
		for _, ref := range *al.Referrers() {
			switch w := ref.(type) {
			case *ssa.Store:
				if w.Addr == ssa.Value(al) && !(Dominates(w, x) && Dominates(w, y)) {
					return false
				}
			case *ssa.Call:
				if !(Dominates(w, x) && Dominates(w, y)) {
					return false
				}
			case *ssa.UnOp, *ssa.DebugRef:
			default:
				return false
			}
		}
		return true
	}
	return false
}

// chainOff returns the offset recorded for value v in the chain (or def when absent).
func chainOff(chain []chainElem, v ssa.Value, def int64) int64 {
	for _, e := range chain {
		if e.v == v {
			return e.off
		}
	}
	return def
}

func describeBound(v ssa.Value) string {
	if ld, ok := v.(*ssa.UnOp); ok {
		if fa, ok := ld.X.(*ssa.FieldAddr); ok {
			return "." + FieldName(fa.X.Type(), fa.Field)
		}
	}
	s := v.String()
	if len(s) > 40 {
		s = s[:40]
	}
	return strings.TrimSpace(s)
}

// testsErrField: a small predicate method whose result depends on the receiver's err field (decoder.done).
func testsErrField(fn *ssa.Function) bool {
	if fn == nil || fn.Blocks == nil || fn.Signature.Results().Len() != 1 {
		return false
	}
	if b, ok := fn.Signature.Results().At(0).Type().Underlying().(*types.Basic); !ok || b.Kind() != types.Bool {
		return false
	}
	found := false
	for _, b := range fn.Blocks {
		for _, ins := range b.Instrs {
			if fa, ok := ins.(*ssa.FieldAddr); ok && FieldName(fa.X.Type(), fa.Field) == "err" {
				found = true
			}
		}
	}
	return found
}

func boundedByConstant(why []string) bool {
	for _, w := range why {
		if strings.Contains(w, "16-bit") {
			return true
		}
		// "guard t3 <= 16": a comparison with an integer literal
		if f := strings.Fields(w); len(f) == 4 && f[0] == "guard" && (f[2] == "<=" || f[2] == "<" || f[2] == "==") {
			if _, err := strconv.ParseInt(f[3], 10, 64); err == nil {
				return true
			}
		}
	}
	return false
}

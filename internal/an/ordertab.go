package an

import (
	"fmt"
	"go/constant"
	"go/token"
	"go/types"
	"sort"

	"golang.org/x/tools/go/ssa"
)

// OVal is a value of the finite order domain: an integer rank (standing for the position of
// an atom in the ordering under consideration), a boolean, or an opaque atom reference.
type OVal struct {
	Kind byte // 'i' int, 'b' bool, 'n' nil-or-not (I=0 nil, 1 non-nil), 'x' tuple
	I    int64
	Atom string // non-empty when the value is an unmodified copy of an atom
	Tup  []OVal
}

// AtomFn names the atom an SSA value stands for (parameters, loads of fields, designated calls).
type AtomFn func(v ssa.Value) (string, bool)

// DefaultAtoms names parameters, field loads rooted at parameters, len() of those, and calls to
// niladic methods on parameters, by their access path.
func DefaultAtoms(v ssa.Value) (string, bool) {
	switch x := v.(type) {
	case *ssa.Parameter:
		return x.Name(), true
	case *ssa.UnOp:
		if x.Op == token.MUL {
			return atomPath(x.X)
		}
	case *ssa.Field:
		return atomPath(x)
	case *ssa.Call:
		if b, ok := x.Call.Value.(*ssa.Builtin); ok && b.Name() == "len" {
			if s, ok := DefaultAtoms(x.Call.Args[0]); ok {
				return "len(" + s + ")", true
			}
			return "", false
		}
		// niladic method on an atom
		if f := x.Call.StaticCallee(); f != nil && f.Signature.Recv() != nil && len(x.Call.Args) == 1 {
			if s, ok := DefaultAtoms(x.Call.Args[0]); ok {
				return s + "." + f.Name() + "()", true
			}
		}
	}
	return "", false
}

func atomPath(v ssa.Value) (string, bool) {
	switch x := v.(type) {
	case *ssa.Parameter:
		return x.Name(), true
	case *ssa.FieldAddr:
		if s, ok := atomPath(x.X); ok {
			return s + "." + fieldName(x.X.Type(), x.Field), true
		}
	case *ssa.Field:
		if s, ok := atomPath(x.X); ok {
			return s + "." + fieldName(x.X.Type(), x.Field), true
		}
	case *ssa.UnOp:
		if x.Op == token.MUL {
			return atomPath(x.X)
		}
	case *ssa.Alloc:
		// spilled parameter copy: find the single store of a parameter
		for _, r := range *x.Referrers() {
			if s, ok := r.(*ssa.Store); ok && s.Addr == x {
				if p, ok := s.Val.(*ssa.Parameter); ok {
					return p.Name(), true
				}
			}
		}
	}
	return "", false
}

// EvalOrder interprets a side-effect free function over the order domain under one assignment
// of ranks to atoms. It fails (error) when the body leaves the supported fragment.
func EvalOrder(fn *ssa.Function, atoms AtomFn, assign map[string]int64, seenAtoms map[string]bool) ([]OVal, error) {
	if len(fn.Blocks) == 0 {
		return nil, fmt.Errorf("no body")
	}
	env := map[ssa.Value]OVal{}
	var eval func(v ssa.Value) (OVal, error)
	eval = func(v ssa.Value) (OVal, error) {
		if c, ok := v.(*ssa.Const); ok {
			if c.Value == nil {
				if isNillable(c.Type()) {
					return OVal{Kind: 'n', I: 0}, nil
				}
				return OVal{Kind: 'i', I: 0}, nil
			}
			switch c.Value.Kind() {
			case constant.Int:
				i, _ := constant.Int64Val(c.Value)
				return OVal{Kind: 'i', I: i}, nil
			case constant.Bool:
				b := int64(0)
				if constant.BoolVal(c.Value) {
					b = 1
				}
				return OVal{Kind: 'b', I: b}, nil
			case constant.String:
				// strings are compared with "" only: rank 0 = empty
				if constant.StringVal(c.Value) == "" {
					return OVal{Kind: 'i', I: 0}, nil
				}
				return OVal{Kind: 'i', I: 1, Atom: "str:" + constant.StringVal(c.Value)}, nil
			}
			return OVal{}, fmt.Errorf("unsupported constant %s", c)
		}
		if r, ok := env[v]; ok {
			return r, nil
		}
		switch f := v.(type) {
		case *ssa.Function:
			return OVal{Kind: 'n', I: 1, Atom: "func:" + f.Name()}, nil
		case *ssa.MakeClosure:
			return OVal{Kind: 'n', I: 1, Atom: "closure:" + f.Fn.Name()}, nil
		}
		if name, ok := atoms(v); ok {
			if seenAtoms != nil {
				seenAtoms[name] = true
			}
			val, has := assign[name]
			if !has {
				return OVal{}, fmt.Errorf("atom %q has no assignment", name)
			}
			k := byte('i')
			if isNillable(v.Type()) {
				if _, isBasic := v.Type().Underlying().(*types.Basic); !isBasic {
					k = 'n'
				}
			}
			if b, ok := v.Type().Underlying().(*types.Basic); ok && b.Kind() == types.Bool {
				k = 'b'
			}
			return OVal{Kind: k, I: val, Atom: name}, nil
		}
		return OVal{}, fmt.Errorf("value %s (%T) outside the order fragment", v.Name(), v)
	}
	blk := fn.Blocks[0]
	var prev *ssa.BasicBlock
	for steps := 0; steps < 10000; steps++ {
		for _, ins := range blk.Instrs {
			switch x := ins.(type) {
			case *ssa.Phi:
				for i, p := range blk.Preds {
					if p == prev {
						r, err := eval(x.Edges[i])
						if err != nil {
							return nil, err
						}
						env[x] = r
					}
				}
			case *ssa.BinOp:
				if _, ok := atoms(x); ok {
					continue
				}
				a, err := eval(x.X)
				if err != nil {
					return nil, err
				}
				b, err := eval(x.Y)
				if err != nil {
					return nil, err
				}
				if a.Kind == 'p' || b.Kind == 'p' {
					return nil, fmt.Errorf("comparison of a value outside the order fragment")
				}
				r := OVal{Kind: 'b'}
				t := false
				switch x.Op {
				case token.LSS:
					t = a.I < b.I
				case token.LEQ:
					t = a.I <= b.I
				case token.GTR:
					t = a.I > b.I
				case token.GEQ:
					t = a.I >= b.I
				case token.EQL:
					t = a.I == b.I
				case token.NEQ:
					t = a.I != b.I
				case token.ADD:
					env[x] = OVal{Kind: 'i', I: a.I + b.I}
					continue
				case token.SUB:
					env[x] = OVal{Kind: 'i', I: a.I - b.I}
					continue
				case token.AND:
					if a.Kind == 'b' {
						t = a.I != 0 && b.I != 0
					} else {
						env[x] = OVal{Kind: 'i', I: a.I & b.I}
						continue
					}
				case token.OR:
					if a.Kind == 'b' {
						t = a.I != 0 || b.I != 0
					} else {
						env[x] = OVal{Kind: 'i', I: a.I | b.I}
						continue
					}
				default:
					return nil, fmt.Errorf("operator %s outside the order fragment", x.Op)
				}
				if t {
					r.I = 1
				}
				env[x] = r
			case *ssa.UnOp:
				if _, ok := atoms(x); ok {
					continue
				}
				if x.Op == token.MUL {
					// a load that is not an atom: opaque ("poison") — it may be stored or returned but
					// never compared or branched on
					env[x] = OVal{Kind: 'p', Atom: "load"}
					continue
				}
				a, err := eval(x.X)
				if err != nil {
					return nil, err
				}
				if a.Kind == 'p' {
					return nil, fmt.Errorf("operation on a value outside the order fragment")
				}
				switch x.Op {
				case token.NOT:
					env[x] = OVal{Kind: 'b', I: 1 - a.I}
				case token.SUB:
					env[x] = OVal{Kind: 'i', I: -a.I}
				default:
					return nil, fmt.Errorf("unary %s outside the order fragment", x.Op)
				}
			case *ssa.Convert:
				a, err := eval(x.X)
				if err != nil {
					return nil, err
				}
				env[x] = a
			case *ssa.ChangeType:
				a, err := eval(x.X)
				if err != nil {
					return nil, err
				}
				env[x] = a
			case *ssa.MakeInterface:
				a, err := eval(x.X)
				if err != nil {
					// an error value being built: treat as non-nil opaque
					env[x] = OVal{Kind: 'n', I: 1, Atom: "iface"}
					continue
				}
				a.Kind = 'n'
				if a.Atom == "" {
					a.Atom = "iface"
				}
				a.I = 1
				env[x] = a
			case *ssa.Call:
				if _, ok := atoms(x); ok {
					continue
				}
				// opaque call producing a value: only allowed when the result is an error/opaque
				// object that is merely returned (e.g. errors.New, fmt.Errorf)
				env[x] = OVal{Kind: 'n', I: 1, Atom: "call:" + CalleeName(&x.Call)}
			case *ssa.Alloc, *ssa.Store, *ssa.FieldAddr, *ssa.Field, *ssa.IndexAddr, *ssa.DebugRef, *ssa.Slice, *ssa.MakeSlice, *ssa.MakeClosure:
				// only meaningful if later read as an atom
				continue
			case *ssa.If:
				c, err := eval(x.Cond)
				if err != nil {
					return nil, err
				}
				if c.Kind == 'p' {
					return nil, fmt.Errorf("branch on a value outside the order fragment")
				}
				prev = blk
				if c.I != 0 {
					blk = blk.Succs[0]
				} else {
					blk = blk.Succs[1]
				}
				goto next
			case *ssa.Jump:
				prev = blk
				blk = blk.Succs[0]
				goto next
			case *ssa.Return:
				var out []OVal
				for _, r := range x.Results {
					v, err := eval(r)
					if err != nil {
						return nil, err
					}
					out = append(out, v)
				}
				return out, nil
			default:
				return nil, fmt.Errorf("instruction %T outside the order fragment", ins)
			}
		}
		return nil, fmt.Errorf("block without terminator")
	next:
	}
	return nil, fmt.Errorf("no termination within the step bound")
}

// Assignments enumerates every assignment of the values vals to the atoms (cartesian product).
func Assignments(atoms []string, vals []int64, f func(map[string]int64)) int {
	n := 0
	m := map[string]int64{}
	var rec func(i int)
	rec = func(i int) {
		if i == len(atoms) {
			n++
			f(m)
			return
		}
		for _, v := range vals {
			m[atoms[i]] = v
			rec(i + 1)
		}
	}
	rec(0)
	return n
}

// WeakOrderings counts the distinct weak orderings realised by assignments over a value set of
// size >= len(atoms): every weak ordering of k atoms is realised by some assignment to {0..k-1}.
func WeakOrderings(k int) int {
	// Fubini numbers
	f := []int{1, 1, 3, 13, 75, 541, 4683}
	if k < len(f) {
		return f[k]
	}
	return -1
}

func SortedKeys(m map[string]bool) []string {
	var out []string
	for k := range m {
		out = append(out, k)
	}
	sort.Strings(out)
	return out
}

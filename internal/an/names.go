package an

import (
	"crypto/sha1"
	"encoding/hex"
	"encoding/json"
	"fmt"
	"go/types"
	"io"
	"os"
	"sort"
	"strings"
	"sync"

	"golang.org/x/tools/go/ssa"
)

// Canonical names. Shapes, provenance strings and obligation keys mention parameters, memory-resident locals
// and unexported functions by name; a rename of any of them is behaviour-preserving and must not change a
// verdict. The names used in all renderings are therefore taken from a table frozen on the reviewed tree
// (ref/names.json): a parameter is identified by its position, a local by its position among the named locals
// of the same type in its function, and a function that is missing under its reviewed name is re-identified
// when exactly one new function of the same package, receiver and signature has the same structural
// fingerprint (its body is unchanged up to names).

// RefNames is the embedded table (set by the rules package).
var RefNames []byte

type NameEntry struct {
	Pkg    string      `json:"pkg"`
	Recv   string      `json:"recv,omitempty"`
	Sig    string      `json:"sig"`
	FP     string      `json:"fp"`
	Params []string    `json:"params,omitempty"`
	Cells  [][2]string `json:"cells,omitempty"` // (type, name) in order of appearance
}

// Canon holds the canonical names for one loaded program.
type Canon struct {
	param map[*ssa.Parameter]string
	cell  map[*ssa.Alloc]string
	fn    map[*ssa.Function]string // reviewed full name (fn.String() form) for re-identified functions
	byRef map[string]*ssa.Function // reviewed full name -> current function (only for re-identified ones)
	known map[*ssa.Function]bool   // top-level module functions that existed (possibly under another name) at review time
	sites map[*ssa.Function][]ssa.CallInstruction
	armed bool
	Notes []string
}

// IsNew reports a module function that did not exist when the tables were reviewed (typically a helper extracted
// from a reviewed function). Such a function is analysed as part of its callers: its parameters stand for the
// arguments at its call sites, its instructions are visited where it is called, and path searches run through it.
func IsNew(fn *ssa.Function) bool {
	if fn == nil || fn.Blocks == nil {
		return false
	}
	top := fn
	for top.Parent() != nil {
		top = top.Parent()
	}
	c := canonOf(top.Prog)
	if c == nil || !c.armed {
		return false
	}
	_, tracked := c.sites[top]
	return tracked && !c.known[top]
}

// SitesOf lists the static call sites of a new function.
func SitesOf(fn *ssa.Function) []ssa.CallInstruction {
	if c := canonOf(fn.Prog); c != nil {
		return c.sites[fn]
	}
	return nil
}

var (
	canonMu sync.RWMutex
	canons  = map[*ssa.Program]*Canon{}
)

func canonOf(prog *ssa.Program) *Canon {
	canonMu.RLock()
	c := canons[prog]
	canonMu.RUnlock()
	return c
}

// ReleaseCanon forgets the table of a program (so that the program can be collected).
func ReleaseCanon(prog *ssa.Program) {
	canonMu.Lock()
	delete(canons, prog)
	canonMu.Unlock()
}

// ParamName is the canonical name of a parameter.
func ParamName(x *ssa.Parameter) string {
	if fn := x.Parent(); fn != nil {
		if c := canonOf(fn.Prog); c != nil {
			if n, ok := c.param[x]; ok {
				return n
			}
		}
	}
	return x.Name()
}

// CellName is the canonical name of a named local that lives in memory.
func CellName(x *ssa.Alloc) string {
	if fn := x.Parent(); fn != nil {
		if c := canonOf(fn.Prog); c != nil {
			if n, ok := c.cell[x]; ok {
				return n
			}
		}
	}
	return x.Comment
}

// RefFuncString is fn.String() with re-identified functions shown under their reviewed name.
func RefFuncString(fn *ssa.Function) string {
	if fn == nil {
		return "<nil>"
	}
	if c := canonOf(fn.Prog); c != nil {
		// closures follow their outermost function
		top, suffix := fn, ""
		for top.Parent() != nil {
			top = top.Parent()
		}
		if top != fn {
			suffix = strings.TrimPrefix(fn.String(), top.String())
		}
		if n, ok := c.fn[top]; ok {
			return n + suffix
		}
	}
	return fn.String()
}

// RefFuncName is fn.Name() under the reviewed name.
func RefFuncName(fn *ssa.Function) string {
	if fn == nil {
		return "<nil>"
	}
	if c := canonOf(fn.Prog); c != nil {
		if n, ok := c.fn[fn]; ok {
			if i := strings.LastIndex(n, "."); i >= 0 {
				return n[i+1:]
			}
			return n
		}
	}
	return fn.Name()
}

// LookupRenamed returns the current function that was re-identified as the reviewed function `full`.
func LookupRenamed(prog *ssa.Program, full string) *ssa.Function {
	if c := canonOf(prog); c != nil {
		return c.byRef[full]
	}
	return nil
}

func isNamedCell(a *ssa.Alloc) bool {
	switch a.Comment {
	case "", "varargs", "complit", "slicelit", "makeslice", "new", "mapkey", "rangekey":
		return false
	}
	return !strings.Contains(a.Comment, ".") && !strings.HasPrefix(a.Comment, "t")
}

func namedCells(fn *ssa.Function) []*ssa.Alloc {
	var out []*ssa.Alloc
	for _, b := range fn.Blocks {
		for _, ins := range b.Instrs {
			if a, ok := ins.(*ssa.Alloc); ok && a.Comment != "" {
				switch a.Comment {
				case "varargs", "complit", "slicelit", "makeslice", "new":
					continue
				}
				out = append(out, a)
			}
		}
	}
	return out
}

func typeStr(t types.Type) string {
	if sig, ok := t.(*types.Signature); ok {
		return sigStr(sig)
	}
	return types.TypeString(t, func(p *types.Package) string { return p.Path() })
}

// sigStr renders a signature without parameter names.
func sigStr(sig *types.Signature) string {
	var ps, rs []string
	for i := 0; i < sig.Params().Len(); i++ {
		ps = append(ps, typeStr(sig.Params().At(i).Type()))
	}
	for i := 0; i < sig.Results().Len(); i++ {
		rs = append(rs, typeStr(sig.Results().At(i).Type()))
	}
	v := ""
	if sig.Variadic() {
		v = "..."
	}
	return "func(" + strings.Join(ps, ",") + v + ")(" + strings.Join(rs, ",") + ")"
}

// Fingerprint hashes the structure of a function body: instruction kinds, types, field names, constants and
// callees (unexported callees of the same package only by signature, since they may be renamed together).
func Fingerprint(fn *ssa.Function) string {
	h0 := sha1.New()
	var dbg *strings.Builder
	if os.Getenv("KCHECK_DEBUG_FP") != "" && strings.Contains(fn.String(), os.Getenv("KCHECK_DEBUG_FP")) {
		dbg = &strings.Builder{}
		defer func() { fmt.Fprintf(os.Stderr, "FP %s: %s\n", fn.String(), dbg.String()) }()
	}
	h := io.MultiWriter(h0, fpDebug{dbg})
	var walk func(f *ssa.Function)
	walk = func(f *ssa.Function) {
		fmt.Fprintf(h, "F(%s)", typeStr(f.Signature))
		for _, b := range f.Blocks {
			fmt.Fprintf(h, "B%d:", len(b.Succs))
			for _, ins := range b.Instrs {
				fmt.Fprintf(h, "%T;", ins)
				switch x := ins.(type) {
				case *ssa.FieldAddr:
					fmt.Fprintf(h, "%s.%d;", typeStr(x.X.Type()), x.Field)
				case *ssa.Field:
					fmt.Fprintf(h, "%s.%d;", typeStr(x.X.Type()), x.Field)
				case *ssa.BinOp:
					fmt.Fprintf(h, "%s;", x.Op)
				case *ssa.UnOp:
					fmt.Fprintf(h, "%s;", x.Op)
				case *ssa.Alloc:
					fmt.Fprintf(h, "%s;", typeStr(x.Type()))
				case ssa.CallInstruction:
					com := x.Common()
					if com.IsInvoke() {
						fmt.Fprintf(h, "invoke %s;", com.Method.Name())
					} else if sc := com.StaticCallee(); sc != nil {
						if sc.Parent() != nil {
							fmt.Fprintf(h, "closure %s;", typeStr(sc.Signature))
						} else if sc.Pkg == f.Pkg && sc.Object() != nil && !sc.Object().Exported() {
							fmt.Fprintf(h, "local %s;", typeStr(sc.Signature))
						} else {
							fmt.Fprintf(h, "%s;", sc.String())
						}
					} else if bi, ok := com.Value.(*ssa.Builtin); ok {
						fmt.Fprintf(h, "%s;", bi.Name())
					}
				}
				for _, op := range ins.Operands(nil) {
					if op == nil || *op == nil {
						continue
					}
					if c, ok := (*op).(*ssa.Const); ok {
						if c.Value != nil {
							fmt.Fprintf(h, "k%s;", c.Value.ExactString())
						} else {
							fmt.Fprintf(h, "knil;")
						}
					}
					if g, ok := (*op).(*ssa.Global); ok {
						fmt.Fprintf(h, "g%s;", g.String())
					}
				}
			}
		}
		for _, a := range f.AnonFuncs {
			walk(a)
		}
	}
	walk(fn)
	return hex.EncodeToString(h0.Sum(nil))[:16]
}

type fpDebug struct{ b *strings.Builder }

func (d fpDebug) Write(p []byte) (int, error) {
	if d.b != nil {
		d.b.Write(p)
	}
	return len(p), nil
}

func recvStr(fn *ssa.Function) string {
	if r := fn.Signature.Recv(); r != nil {
		return typeStr(r.Type())
	}
	return ""
}

func pkgPathOf(fn *ssa.Function) string {
	for fn.Parent() != nil {
		fn = fn.Parent()
	}
	if fn.Pkg != nil {
		return fn.Pkg.Pkg.Path()
	}
	if fn.Object() != nil && fn.Object().Pkg() != nil {
		return fn.Object().Pkg().Path()
	}
	return ""
}

func entryOf(fn *ssa.Function) NameEntry {
	e := NameEntry{Pkg: pkgPathOf(fn), Recv: recvStr(fn), Sig: typeStr(fn.Signature), FP: Fingerprint(fn)}
	for _, p := range fn.Params {
		e.Params = append(e.Params, p.Name())
	}
	for _, a := range namedCells(fn) {
		e.Cells = append(e.Cells, [2]string{typeStr(a.Type()), a.Comment})
	}
	return e
}

// DumpNames renders the table for the given functions (dev aid used to freeze ref/names.json).
func DumpNames(fns []*ssa.Function) []byte {
	m := map[string]NameEntry{}
	for _, fn := range fns {
		if fn.Blocks == nil || fn.Synthetic != "" {
			continue
		}
		m[fn.String()] = entryOf(fn)
	}
	b, _ := json.MarshalIndent(m, "", " ")
	return b
}

// BuildCanon computes the canonical names of a program's module functions from the reference table.
func BuildCanon(prog *ssa.Program, fns []*ssa.Function) *Canon {
	c := &Canon{param: map[*ssa.Parameter]string{}, cell: map[*ssa.Alloc]string{}, fn: map[*ssa.Function]string{}, byRef: map[string]*ssa.Function{},
		known: map[*ssa.Function]bool{}, sites: map[*ssa.Function][]ssa.CallInstruction{}}
	if len(RefNames) == 0 {
		return c
	}
	var table map[string]NameEntry
	if err := json.Unmarshal(RefNames, &table); err != nil {
		c.Notes = append(c.Notes, "names table unreadable: "+err.Error())
		return c
	}
	cur := map[string]*ssa.Function{}
	for _, fn := range fns {
		if fn.Blocks != nil && fn.Synthetic == "" {
			cur[fn.String()] = fn
		}
	}
	apply := func(fn *ssa.Function, e NameEntry) {
		for i, p := range fn.Params {
			if i < len(e.Params) && e.Params[i] != "" {
				c.param[p] = e.Params[i]
			}
		}
		byType := map[string][]string{}
		for _, cl := range e.Cells {
			byType[cl[0]] = append(byType[cl[0]], cl[1])
		}
		seen := map[string]int{}
		for _, a := range namedCells(fn) {
			t := typeStr(a.Type())
			k := seen[t]
			seen[t]++
			if k < len(byType[t]) {
				c.cell[a] = byType[t][k]
			}
		}
	}
	// functions present under their reviewed name
	for name, fn := range cur {
		if e, ok := table[name]; ok {
			apply(fn, e)
			if fn.Parent() == nil {
				c.known[fn] = true
			}
		}
	}
	// reviewed top-level functions that are missing: look for a renamed twin
	var missing []string
	for name := range table {
		if _, ok := cur[name]; !ok && !strings.Contains(name, "$") {
			missing = append(missing, name)
		}
	}
	sort.Strings(missing)
	var unknown []*ssa.Function
	for name, fn := range cur {
		if _, ok := table[name]; !ok && fn.Parent() == nil {
			unknown = append(unknown, fn)
		}
	}
	sort.Slice(unknown, func(i, j int) bool { return unknown[i].String() < unknown[j].String() })
	used := map[*ssa.Function]bool{}
	for _, name := range missing {
		e := table[name]
		var match []*ssa.Function
		for _, fn := range unknown {
			if used[fn] || pkgPathOf(fn) != e.Pkg || recvStr(fn) != e.Recv || typeStr(fn.Signature) != e.Sig {
				continue
			}
			if Fingerprint(fn) == e.FP {
				match = append(match, fn)
			}
		}
		if len(match) != 1 {
			if os.Getenv("KCHECK_DEBUG_NAMES") != "" {
				for _, fn := range unknown {
					if pkgPathOf(fn) == e.Pkg && recvStr(fn) == e.Recv {
						fmt.Fprintf(os.Stderr, "names: %s missing; candidate %s sig=%s (want %s) fp=%s (want %s)\n", name, fn.String(), typeStr(fn.Signature), e.Sig, Fingerprint(fn), e.FP)
					}
				}
			}
			continue
		}
		fn := match[0]
		used[fn] = true
		c.known[fn] = true
		c.fn[fn] = name
		c.byRef[name] = fn
		apply(fn, e)
		c.Notes = append(c.Notes, fmt.Sprintf("%s is the reviewed %s under a new name (same receiver, signature and body structure)", fn.String(), name))
		// closures keep their ordinal suffix
		var walk func(f *ssa.Function)
		walk = func(f *ssa.Function) {
			for _, a := range f.AnonFuncs {
				suffix := strings.TrimPrefix(a.String(), fn.String())
				if ce, ok := table[name+suffix]; ok {
					apply(a, ce)
				}
				walk(a)
			}
		}
		walk(fn)
	}
	// new functions and their call sites
	c.armed = len(table) > 0
	for _, fn := range unknown {
		if !c.known[fn] {
			c.sites[fn] = nil
		}
	}
	if len(c.sites) > 0 {
		for _, fn := range fns {
			for _, b := range fn.Blocks {
				for _, ins := range b.Instrs {
					ci, ok := ins.(ssa.CallInstruction)
					if !ok {
						continue
					}
					if sc := ci.Common().StaticCallee(); sc != nil {
						if _, isNew := c.sites[sc]; isNew {
							c.sites[sc] = append(c.sites[sc], ci)
						}
					}
				}
			}
		}
		// only unexported helpers that are actually called are folded into their callers; anything else that is new
		// (an exported entry point, a function nobody calls statically) is analysed on its own like reviewed code
		for fn, ss := range c.sites {
			exported := fn.Object() != nil && fn.Object().Exported()
			if len(ss) == 0 || exported {
				delete(c.sites, fn)
			}
		}
		var names []string
		for fn := range c.sites {
			names = append(names, fn.String())
		}
		sort.Strings(names)
		if len(names) > 0 {
			c.Notes = append(c.Notes, "functions that did not exist at review time are analysed as part of their callers: "+strings.Join(names, ", "))
		}
	}
	canonMu.Lock()
	canons[prog] = c
	canonMu.Unlock()
	return c
}

package an

import (
	"fmt"
	"go/ast"
	"go/constant"
	"go/token"
	"go/types"
	"sort"
	"strings"
)

// Lin is a linear combination of symbolic atoms; key "" is the constant term.
type Lin map[string]int64

func (l Lin) Clone() Lin {
	c := Lin{}
	for k, v := range l {
		c[k] = v
	}
	return c
}

func (l Lin) AddLin(o Lin, k int64) {
	for a, v := range o {
		l[a] += v * k
		if l[a] == 0 {
			delete(l, a)
		}
	}
}

func ConstLin(c int64) Lin {
	if c == 0 {
		return Lin{}
	}
	return Lin{"": c}
}

func AtomLin(a string) Lin { return Lin{a: 1} }

func (l Lin) IsConst() (int64, bool) {
	if len(l) == 0 {
		return 0, true
	}
	if len(l) == 1 {
		if c, ok := l[""]; ok {
			return c, true
		}
	}
	return 0, false
}

func (l Lin) String() string {
	var ks []string
	for k := range l {
		if k != "" {
			ks = append(ks, k)
		}
	}
	sort.Strings(ks)
	var parts []string
	if c := l[""]; c != 0 || len(ks) == 0 {
		parts = append(parts, fmt.Sprint(c))
	}
	for _, k := range ks {
		if l[k] == 1 {
			parts = append(parts, k)
		} else {
			parts = append(parts, fmt.Sprintf("%d*%s", l[k], k))
		}
	}
	return strings.Join(parts, " + ")
}

func LinEqual(a, b Lin) bool { return a.String() == b.String() }

// SV is a symbolic value.
type SV struct {
	K      byte // 'n' number, 'r' reference (access path), 'f' function, 'b' boolean, 'u' unknown, 't' tuple, 'z' nil
	L      Lin
	Path   string
	T      types.Type
	Fn     *symFn
	Cond   string
	Tup    []*SV
	Fields map[string]*SV // local struct value built from a composite literal
}

func numSV(l Lin) *SV                  { return &SV{K: 'n', L: l} }
func refSV(p string, t types.Type) *SV { return &SV{K: 'r', Path: p, T: t} }

// Canon renders a value for use inside atoms.
func (v *SV) Canon() string {
	if v == nil {
		return "?"
	}
	switch v.K {
	case 'n':
		return v.L.String()
	case 'r', 'u':
		return v.Path
	case 'b':
		return v.Cond
	case 'z':
		return "nil"
	case 'f':
		return "func"
	case 't':
		var s []string
		for _, x := range v.Tup {
			s = append(s, x.Canon())
		}
		return "(" + strings.Join(s, ",") + ")"
	}
	return "?"
}

type symFn struct {
	decl *ast.FuncDecl
	lit  *ast.FuncLit
	env  *symEnv
	obj  *types.Func
	recv *SV // bound receiver of a method value
}

type symEnv struct {
	vars   map[types.Object]*SV
	parent *symEnv
}

func (e *symEnv) lookup(o types.Object) (*SV, bool) {
	for x := e; x != nil; x = x.parent {
		if v, ok := x.vars[o]; ok {
			return v, true
		}
	}
	return nil, false
}

func (e *symEnv) set(o types.Object, v *SV) {
	for x := e; x != nil; x = x.parent {
		if _, ok := x.vars[o]; ok {
			x.vars[o] = v
			return
		}
	}
	e.vars[o] = v
}

func (e *symEnv) flatClone() *symEnv {
	c := &symEnv{vars: map[types.Object]*SV{}}
	var chain []*symEnv
	for x := e; x != nil; x = x.parent {
		chain = append(chain, x)
	}
	for i := len(chain) - 1; i >= 0; i-- {
		for k, v := range chain[i].vars {
			c.vars[k] = v
		}
	}
	return c
}

// WEvent is one write to a sink.
type WEvent struct {
	N     Lin    // bytes
	Val   *SV    // value written when it is a fixed-width integer
	Label string // primitive name
}

// BState is the mutable interpreter state (cloned at branches).
type BState struct {
	Heap  map[string]*SV // assigned fields of referenced objects: path.field -> value
	Sinks map[string][]WEvent
}

func (s *BState) clone() *BState {
	c := &BState{Heap: map[string]*SV{}, Sinks: map[string][]WEvent{}}
	for k, v := range s.Heap {
		c.Heap[k] = v
	}
	for k, v := range s.Sinks {
		c.Sinks[k] = append([]WEvent(nil), v...)
	}
	return c
}

// Total bytes written to a sink.
func (s *BState) Total(sink string) Lin {
	t := Lin{}
	for _, e := range s.Sinks[sink] {
		t.AddLin(e.N, 1)
	}
	return t
}

// ByteInterp symbolically evaluates the hand-written codec of one package.
type ByteInterp struct {
	Info       *types.Info
	Decl       func(*types.Func) *ast.FuncDecl
	Assume     map[string]bool // canonical condition -> forced outcome
	derived    map[string]bool // outcomes implied by Assume for the negated form
	Opaque     map[string]bool // function names never inlined
	VarWriters map[string]bool // methods that write varlen(arg0) bytes (zig-zag varint writers)
	VarLenFns  map[string]bool // functions returning the encoded length of a varint
	Errs       []string
	depth      int
	counter    int
	indexDepth int
}

func (bi *ByteInterp) fail(format string, a ...interface{}) {
	if len(bi.Errs) < 20 {
		bi.Errs = append(bi.Errs, fmt.Sprintf(format, a...))
	}
}

type unsupported struct{ why string }

// supportedBody reports whether the interpreter handles every statement of a body.
func supportedBody(b *ast.BlockStmt) (ok bool, why string) {
	ok = true
	ast.Inspect(b, func(n ast.Node) bool {
		switch x := n.(type) {
		case *ast.FuncLit:
			return false
		case *ast.SwitchStmt, *ast.TypeSwitchStmt, *ast.SelectStmt, *ast.GoStmt, *ast.DeferStmt, *ast.LabeledStmt, *ast.SendStmt:
			ok, why = false, fmt.Sprintf("%T", x)
		case *ast.BranchStmt:
			ok, why = false, "branch statement"
		}
		return ok
	})
	return
}

// CallFunc evaluates fn with the given receiver/arguments in state st and returns its result.
func (bi *ByteInterp) CallFunc(fn *types.Func, recv *SV, args []*SV, st *BState) *SV {
	decl := bi.Decl(fn)
	if decl == nil || decl.Body == nil {
		return nil
	}
	return bi.apply(&symFn{decl: decl, obj: fn}, recv, args, st)
}

func (bi *ByteInterp) apply(f *symFn, recv *SV, args []*SV, st *BState) *SV {
	if recv == nil && f.recv != nil {
		recv = f.recv
	}
	bi.depth++
	defer func() { bi.depth-- }()
	if bi.depth > 40 {
		bi.fail("inlining depth exceeded")
		return &SV{K: 'u', Path: "?depth"}
	}
	env := &symEnv{vars: map[types.Object]*SV{}, parent: nil}
	var ftype *ast.FuncType
	var body *ast.BlockStmt
	if f.decl != nil {
		ftype, body = f.decl.Type, f.decl.Body
		if f.decl.Recv != nil && len(f.decl.Recv.List) > 0 && len(f.decl.Recv.List[0].Names) > 0 {
			env.vars[bi.Info.Defs[f.decl.Recv.List[0].Names[0]]] = recv
		}
	} else {
		ftype, body = f.lit.Type, f.lit.Body
		env.parent = f.env
	}
	i := 0
	for _, fld := range ftype.Params.List {
		for _, nm := range fld.Names {
			var v *SV
			if _, variadic := fld.Type.(*ast.Ellipsis); variadic {
				if i < len(args) {
					v = args[i] // callers pass the slice itself (x...) in this code base
				}
			} else if i < len(args) {
				v = args[i]
			}
			if v == nil {
				v = &SV{K: 'u', Path: "?arg"}
			}
			if o := bi.Info.Defs[nm]; o != nil {
				env.vars[o] = v
			}
			i++
		}
		if len(fld.Names) == 0 {
			i++
		}
	}
	// named results start at zero
	if ftype.Results != nil {
		for _, fld := range ftype.Results.List {
			for _, nm := range fld.Names {
				if o := bi.Info.Defs[nm]; o != nil {
					env.vars[o] = zeroSV(o.Type())
				}
			}
		}
	}
	ret, returned := bi.stmts(body.List, env, st)
	if !returned || ret == nil {
		// bare return / fallthrough with named results
		if ftype.Results != nil {
			var outs []*SV
			for _, fld := range ftype.Results.List {
				for _, nm := range fld.Names {
					if v, ok := env.lookup(bi.Info.Defs[nm]); ok {
						outs = append(outs, v)
					}
				}
			}
			if len(outs) == 1 {
				return outs[0]
			}
			if len(outs) > 1 {
				return &SV{K: 't', Tup: outs}
			}
		}
		return &SV{K: 'z'}
	}
	return ret
}

func zeroSV(t types.Type) *SV {
	if b, ok := t.Underlying().(*types.Basic); ok && b.Info()&types.IsNumeric != 0 {
		return numSV(Lin{})
	}
	return &SV{K: 'z', T: t}
}

// stmts evaluates a statement list; returned tells whether a return statement was executed.
func (bi *ByteInterp) stmts(list []ast.Stmt, env *symEnv, st *BState) (*SV, bool) {
	for i, s := range list {
		switch x := s.(type) {
		case *ast.ReturnStmt:
			if len(x.Results) == 0 {
				return nil, true
			}
			if len(x.Results) == 1 {
				return bi.expr(x.Results[0], env, st), true
			}
			var outs []*SV
			for _, r := range x.Results {
				outs = append(outs, bi.expr(r, env, st))
			}
			return &SV{K: 't', Tup: outs}, true
		case *ast.IfStmt:
			if x.Init != nil {
				bi.stmts([]ast.Stmt{x.Init}, env, st)
			}
			cond := bi.expr(x.Cond, env, st)
			c := cond.Canon()
			rest := list[i+1:]
			var elseList []ast.Stmt
			switch e := x.Else.(type) {
			case *ast.BlockStmt:
				elseList = e.List
			case *ast.IfStmt:
				elseList = []ast.Stmt{e}
			}
			// an assumption about `x != nil` also decides `x == nil` (and the reverse)
			if _, ok := bi.Assume[c]; !ok {
				var flipped string
				switch {
				case strings.HasSuffix(c, "==nil"):
					flipped = strings.TrimSuffix(c, "==nil") + "!=nil"
				case strings.HasSuffix(c, "!=nil"):
					flipped = strings.TrimSuffix(c, "!=nil") + "==nil"
				}
				if v, has := bi.Assume[flipped]; has && flipped != "" {
					if bi.derived == nil {
						bi.derived = map[string]bool{}
					}
					bi.derived[c] = !v
				}
			}
			if forced, ok := bi.derived[c]; ok {
				branch := elseList
				if forced {
					branch = x.Body.List
				}
				if r, ret := bi.stmts(branch, env, st); ret {
					return r, true
				}
				return bi.stmts(rest, env, st)
			}
			if forced, ok := bi.Assume[c]; ok {
				branch := elseList
				if forced {
					branch = x.Body.List
				}
				if r, ret := bi.stmts(branch, env, st); ret {
					return r, true
				}
				return bi.stmts(rest, env, st)
			}
			if neg, ok := bi.Assume["!("+c+")"]; ok {
				branch := x.Body.List
				if neg {
					branch = elseList
				}
				if r, ret := bi.stmts(branch, env, st); ret {
					return r, true
				}
				return bi.stmts(rest, env, st)
			}
			// both branches, each followed by the rest of the list
			envA, envB := env.flatClone(), env.flatClone()
			stA, stB := st.clone(), st.clone()
			rA, retA := bi.stmts(append(append([]ast.Stmt{}, x.Body.List...), rest...), envA, stA)
			rB, retB := bi.stmts(append(append([]ast.Stmt{}, elseList...), rest...), envB, stB)
			bi.mergeState(st, stA, stB, c)
			bi.mergeEnv(env, envA, envB, c)
			if retA || retB {
				return mergeSV(rA, rB, c), true
			}
			return nil, false
		case *ast.ForStmt, *ast.RangeStmt:
			bi.loop(s, env, st)
		case *ast.BlockStmt:
			if r, ret := bi.stmts(x.List, env, st); ret {
				return r, true
			}
		case *ast.ExprStmt:
			bi.expr(x.X, env, st)
		case *ast.AssignStmt:
			bi.assign(x, env, st)
		case *ast.DeclStmt:
			if gd, ok := x.Decl.(*ast.GenDecl); ok {
				for _, sp := range gd.Specs {
					vs, ok := sp.(*ast.ValueSpec)
					if !ok {
						continue
					}
					for j, nm := range vs.Names {
						o := bi.Info.Defs[nm]
						if o == nil {
							continue
						}
						if j < len(vs.Values) {
							env.vars[o] = bi.expr(vs.Values[j], env, st)
						} else {
							env.vars[o] = zeroSV(o.Type())
						}
					}
				}
			}
		case *ast.IncDecStmt:
			v := bi.expr(x.X, env, st)
			if v.K == 'n' {
				l := v.L.Clone()
				if x.Tok == token.INC {
					l.AddLin(ConstLin(1), 1)
				} else {
					l.AddLin(ConstLin(1), -1)
				}
				bi.store(x.X, numSV(l), env, st)
			}
		case *ast.EmptyStmt:
		default:
			bi.fail("unsupported statement %T", s)
		}
	}
	return nil, false
}

func mergeSV(a, b *SV, c string) *SV {
	if a == nil {
		return b
	}
	if b == nil {
		return a
	}
	if a.Canon() == b.Canon() {
		return a
	}
	if a.K == 'n' && b.K == 'n' {
		return numSV(condLin(c, a.L, b.L))
	}
	return &SV{K: 'u', Path: "?[" + c + "]{" + a.Canon() + "}{" + b.Canon() + "}"}
}

// condLin builds common + Cond(c, a-common, b-common), after the nil-collection simplification:
// under `P == nil`, len(P) = 0, Σ[P]{…} = 0 and varlen(len(P)) = 1.
func condLin(c string, a, b Lin) Lin {
	if LinEqual(a, b) {
		return a.Clone()
	}
	if p, isNil := nilCond(c); p != "" {
		// a is the branch where c holds
		nilSide, other := a, b
		if !isNil {
			nilSide, other = b, a
		}
		if LinEqual(substNil(other, p), nilSide) {
			return other.Clone()
		}
	}
	common := Lin{}
	for k, va := range a {
		vb, ok := b[k]
		if !ok || (va > 0) != (vb > 0) {
			continue
		}
		m := va
		if abs64(vb) < abs64(va) {
			m = vb
		}
		common[k] = m
	}
	da, db := a.Clone(), b.Clone()
	da.AddLin(common, -1)
	db.AddLin(common, -1)
	out := common.Clone()
	out.AddLin(AtomLin("?["+c+"]{"+da.String()+"}{"+db.String()+"}"), 1)
	return out
}

func abs64(x int64) int64 {
	if x < 0 {
		return -x
	}
	return x
}

// nilCond recognises `P==nil` (isNil=true) and `P!=nil` (isNil=false).
func nilCond(c string) (p string, isNil bool) {
	if strings.HasSuffix(c, "==nil") {
		return strings.TrimSuffix(c, "==nil"), true
	}
	if strings.HasSuffix(c, "!=nil") {
		return strings.TrimSuffix(c, "!=nil"), false
	}
	return "", false
}

// substNil rewrites a linear form under the assumption that collection p is nil.
func substNil(l Lin, p string) Lin {
	out := Lin{}
	for a, c := range l {
		switch {
		case a == "len("+p+")", strings.HasPrefix(a, "Σ["+p+"]{"), strings.HasPrefix(a, "len("+p+")*"):
			// zero
		case a == "varlen(len("+p+"))":
			out[""] += c
		default:
			out[a] += c
		}
	}
	for k, v := range out {
		if v == 0 {
			delete(out, k)
		}
	}
	return out
}

// VarLenConst is the encoded length of a zig-zag varint constant.
func VarLenConst(i int64) int64 {
	u := uint64((i << 1) ^ (i >> 63))
	n := int64(1)
	for u >= 0x80 {
		u >>= 7
		n++
	}
	return n
}

func varlenAtom(arg *SV) Lin {
	if arg != nil && arg.K == 'n' {
		if c, ok := arg.L.IsConst(); ok {
			return ConstLin(VarLenConst(c))
		}
	}
	return AtomLin("varlen(" + arg.Canon() + ")")
}

func (bi *ByteInterp) mergeState(dst, a, b *BState, c string) {
	for k := range a.Heap {
		va, vb := a.Heap[k], b.Heap[k]
		dst.Heap[k] = mergeSV(va, vb, c)
	}
	for k, vb := range b.Heap {
		if _, ok := a.Heap[k]; !ok {
			dst.Heap[k] = vb
		}
	}
	sinks := map[string]bool{}
	for k := range a.Sinks {
		sinks[k] = true
	}
	for k := range b.Sinks {
		sinks[k] = true
	}
	for k := range sinks {
		base := len(dst.Sinks[k])
		ea, eb := a.Sinks[k][min(base, len(a.Sinks[k])):], b.Sinks[k][min(base, len(b.Sinks[k])):]
		// common prefix
		i := 0
		for i < len(ea) && i < len(eb) && LinEqual(ea[i].N, eb[i].N) && ea[i].Label == eb[i].Label && ea[i].Val.Canon() == eb[i].Val.Canon() {
			dst.Sinks[k] = append(dst.Sinks[k], ea[i])
			i++
		}
		ta, tb := Lin{}, Lin{}
		var la, lb []string
		for _, e := range ea[i:] {
			ta.AddLin(e.N, 1)
			la = append(la, e.Label)
		}
		for _, e := range eb[i:] {
			tb.AddLin(e.N, 1)
			lb = append(lb, e.Label)
		}
		if len(ea[i:]) > 0 || len(eb[i:]) > 0 {
			dst.Sinks[k] = append(dst.Sinks[k], WEvent{N: condLin(c, ta, tb), Label: "if[" + c + "]{" + strings.Join(la, ",") + "}{" + strings.Join(lb, ",") + "}"})
		}
	}
}

func (bi *ByteInterp) mergeEnv(dst, a, b *symEnv, c string) {
	for o, va := range a.vars {
		vb, ok := b.vars[o]
		if !ok {
			continue
		}
		if _, exists := dst.lookup(o); exists {
			dst.set(o, mergeSV(va, vb, c))
		}
	}
}

func (bi *ByteInterp) assign(x *ast.AssignStmt, env *symEnv, st *BState) {
	if len(x.Lhs) > 1 && len(x.Rhs) == 1 {
		v := bi.expr(x.Rhs[0], env, st)
		for i, l := range x.Lhs {
			var part *SV = &SV{K: 'u', Path: v.Canon() + fmt.Sprintf("#%d", i)}
			if v.K == 't' && i < len(v.Tup) {
				part = v.Tup[i]
			}
			bi.storeDef(l, part, env, st, x.Tok == token.DEFINE)
		}
		return
	}
	for i, l := range x.Lhs {
		if i >= len(x.Rhs) {
			break
		}
		v := bi.expr(x.Rhs[i], env, st)
		switch x.Tok {
		case token.ASSIGN, token.DEFINE:
			bi.storeDef(l, v, env, st, x.Tok == token.DEFINE)
		case token.ADD_ASSIGN, token.SUB_ASSIGN:
			cur := bi.expr(l, env, st)
			if cur.K == 'n' && v.K == 'n' {
				n := cur.L.Clone()
				if x.Tok == token.ADD_ASSIGN {
					n.AddLin(v.L, 1)
				} else {
					n.AddLin(v.L, -1)
				}
				bi.store(l, numSV(n), env, st)
			} else {
				bi.store(l, &SV{K: 'u', Path: "(" + cur.Canon() + x.Tok.String() + v.Canon() + ")"}, env, st)
			}
		default:
			bi.store(l, &SV{K: 'u', Path: "?assign"}, env, st)
		}
	}
}

func (bi *ByteInterp) storeDef(l ast.Expr, v *SV, env *symEnv, st *BState, define bool) {
	if id, ok := l.(*ast.Ident); ok {
		if id.Name == "_" {
			return
		}
		if define {
			if o := bi.Info.Defs[id]; o != nil {
				env.vars[o] = v
				return
			}
		}
	}
	bi.store(l, v, env, st)
}

func (bi *ByteInterp) store(l ast.Expr, v *SV, env *symEnv, st *BState) {
	switch x := l.(type) {
	case *ast.Ident:
		o := bi.Info.Uses[x]
		if o == nil {
			o = bi.Info.Defs[x]
		}
		if o != nil {
			env.set(o, v)
		}
	case *ast.SelectorExpr:
		base := bi.expr(x.X, env, st)
		if base.Fields != nil {
			nf := map[string]*SV{}
			for k, f := range base.Fields {
				nf[k] = f
			}
			nf[x.Sel.Name] = v
			nb := *base
			nb.Fields = nf
			bi.store(x.X, &nb, env, st)
			return
		}
		st.Heap[base.Canon()+"."+x.Sel.Name] = v
	case *ast.ParenExpr:
		bi.store(x.X, v, env, st)
	case *ast.StarExpr:
		bi.store(x.X, v, env, st)
	case *ast.IndexExpr:
		// writes into scratch arrays (b[0] = …) carry no byte-count meaning
	default:
		bi.fail("unsupported assignment target %T", l)
	}
}

// loop handles `for i := 0; i < n; i++`, `for i := range x`, `for i, v := range x`, `for _, v := range x`.
func (bi *ByteInterp) loop(s ast.Stmt, env *symEnv, st *BState) {
	var body *ast.BlockStmt
	var coll string
	inner := &symEnv{vars: map[types.Object]*SV{}, parent: env}
	bi.indexDepth++
	idx := fmt.Sprintf("$%d", bi.indexDepth)
	defer func() { bi.indexDepth-- }()
	switch x := s.(type) {
	case *ast.RangeStmt:
		body = x.Body
		c := bi.expr(x.X, env, st)
		coll = c.Canon()
		var et types.Type
		if c.T != nil {
			switch u := c.T.Underlying().(type) {
			case *types.Slice:
				et = u.Elem()
			case *types.Array:
				et = u.Elem()
			}
		}
		if id, ok := x.Key.(*ast.Ident); ok && id.Name != "_" {
			if o := bi.Info.Defs[id]; o != nil {
				inner.vars[o] = numSV(AtomLin(idx))
			}
		}
		if id, ok := x.Value.(*ast.Ident); ok && id.Name != "_" {
			if o := bi.Info.Defs[id]; o != nil {
				inner.vars[o] = refSV(coll+"["+idx+"]", et)
			}
		}
	case *ast.ForStmt:
		body = x.Body
		// i := 0; i <|!= n; i++
		as, ok1 := x.Init.(*ast.AssignStmt)
		be, ok2 := x.Cond.(*ast.BinaryExpr)
		if !ok1 || !ok2 || len(as.Lhs) != 1 {
			bi.fail("unsupported for statement shape")
			return
		}
		id, _ := as.Lhs[0].(*ast.Ident)
		if id == nil {
			bi.fail("unsupported for statement shape")
			return
		}
		start := bi.expr(as.Rhs[0], env, st)
		if c, ok := start.L.IsConst(); start.K != 'n' || !ok || c != 0 {
			bi.fail("loop does not start at 0")
			return
		}
		if be.Op != token.LSS && be.Op != token.NEQ {
			bi.fail("unsupported loop condition %s", be.Op)
			return
		}
		n := bi.expr(be.Y, env, st)
		// n must be len(path)
		coll = ""
		if n.K == 'n' && len(n.L) == 1 {
			for a, c := range n.L {
				if c == 1 && strings.HasPrefix(a, "len(") && strings.HasSuffix(a, ")") {
					coll = a[4 : len(a)-1]
				}
			}
		}
		if coll == "" {
			coll = "count:" + n.Canon()
		}
		if o := bi.Info.Defs[id]; o != nil {
			inner.vars[o] = numSV(AtomLin(idx))
		}
	}
	if ok, why := supportedBody(body); !ok {
		bi.fail("loop body uses %s", why)
		return
	}
	// evaluate the body once; everything it adds is multiplied by the trip count
	before := st.clone()
	envBefore := env.flatClone()
	bi.stmts(body.List, inner, st)
	for k := range st.Sinks {
		nb := len(before.Sinks[k])
		delta := Lin{}
		var labels []string
		for _, e := range st.Sinks[k][nb:] {
			delta.AddLin(e.N, 1)
			labels = append(labels, e.Label)
		}
		if len(st.Sinks[k]) > nb {
			st.Sinks[k] = append(st.Sinks[k][:nb:nb], WEvent{N: sumLin(coll, idx, delta), Label: "loop[" + coll + "]{" + strings.Join(labels, ",") + "}"})
		}
	}
	// accumulators
	for o, v0 := range envBefore.vars {
		v1, ok := env.lookup(o)
		if !ok || v1 == v0 || v0.K != 'n' || v1.K != 'n' {
			continue
		}
		d := v1.L.Clone()
		d.AddLin(v0.L, -1)
		if len(d) == 0 {
			continue
		}
		n := v0.L.Clone()
		n.AddLin(sumLin(coll, idx, d), 1)
		env.set(o, numSV(n))
	}
}

// sumLin builds Σ_{idx < len(coll)} d; a summand independent of idx becomes len(coll)*d.
func sumLin(coll, idx string, d Lin) Lin {
	dep := false
	for a := range d {
		if strings.Contains(a, idx) {
			dep = true
		}
	}
	out := Lin{}
	lenAtom := "len(" + coll + ")"
	if strings.HasPrefix(coll, "count:") {
		lenAtom = strings.TrimPrefix(coll, "count:")
	}
	if !dep {
		for a, c := range d {
			if a == "" {
				out[lenAtom] += c
			} else {
				out[lenAtom+"*"+a] += c
			}
		}
		return out
	}
	// normalise the index name so that nesting depth does not matter for equality
	s := strings.ReplaceAll(d.String(), idx, "$i")
	out["Σ["+coll+"]{"+s+"}"] = 1
	return out
}

func (bi *ByteInterp) expr(e ast.Expr, env *symEnv, st *BState) *SV {
	if tv, ok := bi.Info.Types[e]; ok && tv.Value != nil {
		switch tv.Value.Kind() {
		case constant.Int:
			if i, ok := constant.Int64Val(tv.Value); ok {
				return numSV(ConstLin(i))
			}
		case constant.Bool:
			return &SV{K: 'b', Cond: tv.Value.String()}
		case constant.String:
			return &SV{K: 'u', Path: tv.Value.ExactString(), T: tv.Type}
		}
	}
	switch x := e.(type) {
	case *ast.ParenExpr:
		return bi.expr(x.X, env, st)
	case *ast.Ident:
		if x.Name == "nil" {
			return &SV{K: 'z'}
		}
		o := bi.Info.Uses[x]
		if o == nil {
			o = bi.Info.Defs[x]
		}
		if v, ok := env.lookup(o); ok {
			return v
		}
		if fn, ok := o.(*types.Func); ok {
			return &SV{K: 'f', Fn: &symFn{decl: bi.Decl(fn), obj: fn}, Path: fn.Name()}
		}
		var t types.Type
		if o != nil {
			t = o.Type()
		}
		return &SV{K: 'u', Path: "var:" + x.Name, T: t}
	case *ast.SelectorExpr:
		if sel, ok := bi.Info.Selections[x]; ok && sel.Kind() == types.FieldVal {
			base := bi.expr(x.X, env, st)
			if base.Fields != nil {
				if f, ok := base.Fields[x.Sel.Name]; ok {
					return f
				}
				return zeroSV(sel.Type())
			}
			key := base.Canon() + "." + x.Sel.Name
			if v, ok := st.Heap[key]; ok {
				return v
			}
			return refSV(key, sel.Type())
		}
		// method value: a function bound to its receiver
		if sel, ok := bi.Info.Selections[x]; ok && sel.Kind() == types.MethodVal {
			if fn, isFn := sel.Obj().(*types.Func); isFn {
				if decl := bi.Decl(fn); decl != nil {
					return &SV{K: 'f', Fn: &symFn{decl: decl, obj: fn, recv: bi.expr(x.X, env, st)}, Path: fn.Name()}
				}
			}
		}
		// qualified identifier
		if o := bi.Info.Uses[x.Sel]; o != nil {
			return &SV{K: 'u', Path: "sym:" + o.Name(), T: o.Type()}
		}
		return &SV{K: 'u', Path: "?sel"}
	case *ast.StarExpr:
		v := bi.expr(x.X, env, st)
		if v.K == 'r' {
			var t types.Type
			if p, ok := v.T.(*types.Pointer); ok {
				t = p.Elem()
			}
			return refSV(v.Path, t)
		}
		return v
	case *ast.UnaryExpr:
		v := bi.expr(x.X, env, st)
		switch x.Op {
		case token.AND:
			if v.Fields != nil {
				return v
			}
			if v.K == 'r' {
				return refSV(v.Path, types.NewPointer(orAny(v.T)))
			}
			return v
		case token.SUB:
			if v.K == 'n' {
				l := Lin{}
				l.AddLin(v.L, -1)
				return numSV(l)
			}
		case token.NOT:
			return &SV{K: 'b', Cond: "!(" + v.Canon() + ")"}
		}
		return &SV{K: 'u', Path: x.Op.String() + v.Canon()}
	case *ast.BinaryExpr:
		a, b := bi.expr(x.X, env, st), bi.expr(x.Y, env, st)
		switch x.Op {
		case token.ADD, token.SUB:
			if a.K == 'n' && b.K == 'n' {
				l := a.L.Clone()
				if x.Op == token.ADD {
					l.AddLin(b.L, 1)
				} else {
					l.AddLin(b.L, -1)
				}
				return numSV(l)
			}
		case token.MUL:
			if a.K == 'n' && b.K == 'n' {
				if c, ok := a.L.IsConst(); ok {
					l := Lin{}
					l.AddLin(b.L, c)
					return numSV(l)
				}
				if c, ok := b.L.IsConst(); ok {
					l := Lin{}
					l.AddLin(a.L, c)
					return numSV(l)
				}
			}
		case token.EQL, token.NEQ, token.LSS, token.LEQ, token.GTR, token.GEQ, token.LAND, token.LOR:
			return &SV{K: 'b', Cond: a.Canon() + x.Op.String() + b.Canon()}
		}
		return numSV(AtomLin("(" + a.Canon() + x.Op.String() + b.Canon() + ")"))
	case *ast.CallExpr:
		return bi.call(x, env, st)
	case *ast.FuncLit:
		return &SV{K: 'f', Fn: &symFn{lit: x, env: env}}
	case *ast.CompositeLit:
		t := bi.Info.TypeOf(x)
		bi.counter++
		v := &SV{K: 'r', Path: fmt.Sprintf("new:%s", shortType(t)), T: t, Fields: map[string]*SV{}}
		for _, el := range x.Elts {
			if kv, ok := el.(*ast.KeyValueExpr); ok {
				if id, ok := kv.Key.(*ast.Ident); ok {
					v.Fields[id.Name] = bi.expr(kv.Value, env, st)
				}
			}
		}
		return v
	case *ast.IndexExpr:
		base := bi.expr(x.X, env, st)
		i := bi.expr(x.Index, env, st)
		var et types.Type
		if base.T != nil {
			switch u := base.T.Underlying().(type) {
			case *types.Slice:
				et = u.Elem()
			case *types.Array:
				et = u.Elem()
			case *types.Map:
				et = u.Elem()
			}
		}
		return refSV(base.Canon()+"["+i.Canon()+"]", et)
	case *ast.SliceExpr:
		base := bi.expr(x.X, env, st)
		lo, hi := int64(0), int64(-1)
		if x.Low != nil {
			if v := bi.expr(x.Low, env, st); v.K == 'n' {
				if c, ok := v.L.IsConst(); ok {
					lo = c
				} else {
					lo = -1
				}
			}
		}
		if x.High != nil {
			v := bi.expr(x.High, env, st)
			if v.K == 'n' {
				if c, ok := v.L.IsConst(); ok {
					hi = c
				} else {
					// symbolic upper bound: length is hi - lo
					l := v.L.Clone()
					l.AddLin(ConstLin(lo), -1)
					return &SV{K: 'r', Path: "slice(" + base.Canon() + ")", T: base.T, L: l, Cond: "len-known"}
				}
			}
		}
		if lo >= 0 && hi >= 0 {
			return &SV{K: 'r', Path: "slice(" + base.Canon() + ")", T: base.T, L: ConstLin(hi - lo), Cond: "len-known"}
		}
		return refSV("slice("+base.Canon()+")", base.T)
	case *ast.TypeAssertExpr:
		return bi.expr(x.X, env, st)
	case *ast.BasicLit:
		return &SV{K: 'u', Path: x.Value}
	}
	bi.fail("unsupported expression %T", e)
	return &SV{K: 'u', Path: "?expr"}
}

func orAny(t types.Type) types.Type {
	if t == nil {
		return types.Typ[types.Invalid]
	}
	return t
}

func shortType(t types.Type) string {
	if t == nil {
		return "?"
	}
	s := types.TypeString(t, func(p *types.Package) string { return "" })
	return strings.TrimPrefix(s, "*")
}

func (bi *ByteInterp) lenOf(v *SV) *SV {
	if v.Cond == "len-known" {
		return numSV(v.L.Clone())
	}
	return numSV(AtomLin("len(" + v.Canon() + ")"))
}

func (bi *ByteInterp) call(x *ast.CallExpr, env *symEnv, st *BState) *SV {
	// conversions
	if tv, ok := bi.Info.Types[x.Fun]; ok && tv.IsType() && len(x.Args) == 1 {
		v := bi.expr(x.Args[0], env, st)
		if v.K == 'r' || v.K == 'u' {
			c := *v
			c.T = tv.Type
			return &c
		}
		return v
	}
	var args []*SV
	evalArgs := func() {
		for _, a := range x.Args {
			args = append(args, bi.expr(a, env, st))
		}
	}
	// builtins
	if id, ok := x.Fun.(*ast.Ident); ok {
		if _, isB := bi.Info.Uses[id].(*types.Builtin); isB {
			evalArgs()
			switch id.Name {
			case "len":
				return bi.lenOf(args[0])
			default:
				var s []string
				for _, a := range args {
					s = append(s, a.Canon())
				}
				return &SV{K: 'u', Path: id.Name + "(" + strings.Join(s, ",") + ")", T: bi.Info.TypeOf(x)}
			}
		}
	}
	// resolve callee
	var fn *types.Func
	var recv *SV
	switch f := x.Fun.(type) {
	case *ast.Ident:
		if o, ok := bi.Info.Uses[f].(*types.Func); ok {
			fn = o
		} else {
			// call of a local function value (closure parameter)
			fv := bi.expr(f, env, st)
			evalArgs()
			if fv.K == 'f' && fv.Fn != nil && (fv.Fn.lit != nil || fv.Fn.decl != nil) {
				return bi.apply(fv.Fn, nil, args, st)
			}
			return bi.opaque("call:"+f.Name, args, x)
		}
	case *ast.SelectorExpr:
		if sel, ok := bi.Info.Selections[f]; ok && (sel.Kind() == types.MethodVal) {
			fn, _ = sel.Obj().(*types.Func)
			recv = bi.expr(f.X, env, st)
		} else if o, ok := bi.Info.Uses[f.Sel].(*types.Func); ok {
			fn = o // package-qualified function
		}
	case *ast.FuncLit:
		evalArgs()
		return bi.apply(&symFn{lit: f, env: env}, nil, args, st)
	}
	evalArgs()
	if fn == nil {
		return bi.opaque("call:?", args, x)
	}
	full := fn.FullName()
	// output primitives
	if recv != nil && fn.Pkg() != nil && (fn.Name() == "Write" || fn.Name() == "WriteString" || (fn.Name() == "update" && strings.Contains(full, "crc32Writer"))) && isModuleWriter(fn) {
		sink := recv.Canon() + ".w"
		if v, ok := st.Heap[sink]; ok {
			sink = v.Canon()
		}
		if strings.Contains(full, "crc32Writer") {
			sink = recv.Canon()
		}
		n := bi.lenOf(args[0])
		st.Sinks[sink] = append(st.Sinks[sink], WEvent{N: n.L, Label: fn.Name()})
		return &SV{K: 't', Tup: []*SV{n, {K: 'z'}}}
	}
	if recv != nil && bi.VarWriters[fn.Name()] && isModuleWriter(fn) && len(args) == 1 {
		sink := recv.Canon() + ".w"
		if v, ok := st.Heap[sink]; ok {
			sink = v.Canon()
		}
		if strings.Contains(full, "crc32Writer") {
			sink = recv.Canon()
		}
		st.Sinks[sink] = append(st.Sinks[sink], WEvent{N: varlenAtom(args[0]), Val: args[0], Label: fn.Name()})
		return &SV{K: 'z'}
	}
	if recv == nil && bi.VarLenFns[fn.Name()] && len(args) == 1 {
		return numSV(varlenAtom(args[0]))
	}
	if bi.Opaque[fn.Name()] {
		return bi.opaqueRecv(fn.Name(), recv, args, x)
	}
	// interface method call on a value whose concrete struct is known through Fields/new:
	decl := bi.Decl(fn)
	if decl == nil && recv != nil {
		// dynamic dispatch on an interface: try the concrete type of the receiver value
		if recv.T != nil {
			if m := lookupMethod(recv.T, fn.Name()); m != nil {
				decl = bi.Decl(m)
				fn = m
			}
		}
	}
	if decl == nil || decl.Body == nil {
		return bi.opaqueRecv(fn.Name(), recv, args, x)
	}
	if ok, _ := supportedBody(decl.Body); !ok {
		return bi.opaqueRecv(fn.Name(), recv, args, x)
	}
	// fixed-width writers: remember the value for "size field" obligations
	before := map[string]int{}
	for k, v := range st.Sinks {
		before[k] = len(v)
	}
	res := bi.apply(&symFn{decl: decl, obj: fn}, recv, args, st)
	if recv != nil && len(args) == 1 && strings.HasPrefix(fn.Name(), "writeInt") {
		for k, v := range st.Sinks {
			if len(v) == before[k]+1 {
				v[len(v)-1].Val = args[0]
				v[len(v)-1].Label = fn.Name()
			}
		}
	}
	return res
}

func isModuleWriter(fn *types.Func) bool {
	sig, _ := fn.Type().(*types.Signature)
	if sig == nil || sig.Recv() == nil {
		return false
	}
	t := sig.Recv().Type()
	if p, ok := t.(*types.Pointer); ok {
		t = p.Elem()
	}
	n, ok := t.(*types.Named)
	if !ok {
		return false
	}
	return n.Obj().Name() == "writeBuffer" || n.Obj().Name() == "crc32Writer"
}

func lookupMethod(t types.Type, name string) *types.Func {
	ms := types.NewMethodSet(t)
	for i := 0; i < ms.Len(); i++ {
		if ms.At(i).Obj().Name() == name {
			f, _ := ms.At(i).Obj().(*types.Func)
			return f
		}
	}
	if _, ok := t.(*types.Pointer); !ok {
		return lookupMethod(types.NewPointer(t), name)
	}
	return nil
}

func (bi *ByteInterp) opaque(name string, args []*SV, x *ast.CallExpr) *SV {
	var s []string
	for _, a := range args {
		s = append(s, a.Canon())
	}
	t := bi.Info.TypeOf(x)
	atom := name + "(" + strings.Join(s, ",") + ")"
	if t != nil {
		if b, ok := t.Underlying().(*types.Basic); ok && b.Info()&types.IsNumeric != 0 {
			return numSV(AtomLin(atom))
		}
	}
	return &SV{K: 'u', Path: atom, T: t}
}

func (bi *ByteInterp) opaqueRecv(name string, recv *SV, args []*SV, x *ast.CallExpr) *SV {
	if recv != nil {
		args = append([]*SV{recv}, args...)
	}
	return bi.opaque("call:"+name, args, x)
}

func min(a, b int) int {
	if a < b {
		return a
	}
	return b
}

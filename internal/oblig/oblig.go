// Package oblig keeps the obligations a check expands into, matches them against the
// committed known-findings file and writes evidence and replay files.
package oblig

import (
	"crypto/sha1"
	"encoding/hex"
	"encoding/json"
	"fmt"
	"os"
	"path/filepath"
	"sort"
	"strings"
	"time"
)

type Status string

const (
	Discharged Status = "discharged"
	Violated   Status = "violated"
	Undecided  Status = "undecided"
	AnchorLost Status = "anchor-lost"
	Known      Status = "known-finding"
	Note       Status = "note"
)

// Obligation is one decided (or undecidable) instance of a rule.
type Obligation struct {
	Rule      string   `json:"rule"`      // e.g. "C10.R1 guarded-by"
	Construct string   `json:"construct"` // position independent description
	Status    Status   `json:"verdict"`
	Pos       string   `json:"position,omitempty"`
	Facts     []string `json:"facts,omitempty"`
	Expected  string   `json:"expected,omitempty"`
	Found     string   `json:"found,omitempty"`
	Config    string   `json:"config,omitempty"`
	What      string   `json:"what,omitempty"` // from known findings
}

func (o *Obligation) Key() string { return o.Rule + " | " + o.Construct }

// KnownFinding is an entry of known_findings.json.
type KnownFinding struct {
	Property     string `json:"property"`
	Rule         string `json:"rule"`
	Construct    string `json:"construct"`
	Status       string `json:"status"` // "known" | "fixed"
	Commit       string `json:"commit,omitempty"`
	What         string `json:"what"`
	FailingInput string `json:"failing_input,omitempty"`
}

// Report collects the obligations of one property check in one build configuration.
type Report struct {
	Property string
	Tier     string
	Config   string
	Obs      []*Obligation
	seen     map[string]*Obligation
	Analysed map[string]interface{}
	Notes    []string
	MinCount map[string][2]int // rule -> [found, required]
}

func NewReport(property, tier string) *Report {
	return &Report{Property: property, Tier: tier, seen: map[string]*Obligation{}, Analysed: map[string]interface{}{}, MinCount: map[string][2]int{}}
}

// Add records an obligation; duplicates of the same key keep the worst status.
func (r *Report) Add(o *Obligation) *Obligation {
	if o.Config == "" {
		o.Config = r.Config
	}
	k := o.Key()
	if prev, ok := r.seen[k]; ok {
		if rank(o.Status) > rank(prev.Status) {
			prev.Status, prev.Pos, prev.Expected, prev.Found = o.Status, o.Pos, o.Expected, o.Found
		}
		prev.Facts = append(prev.Facts, o.Facts...)
		return prev
	}
	r.seen[k] = o
	r.Obs = append(r.Obs, o)
	return o
}

func rank(s Status) int {
	switch s {
	case Discharged:
		return 0
	case Note:
		return 1
	case Known:
		return 2
	case Undecided:
		return 3
	case AnchorLost:
		return 4
	case Violated:
		return 5
	}
	return 0
}

func (r *Report) OK(rule, construct, pos string, facts ...string) {
	r.Add(&Obligation{Rule: rule, Construct: construct, Status: Discharged, Pos: pos, Facts: facts})
}

func (r *Report) Bad(rule, construct, pos, expected, found string, facts ...string) {
	r.Add(&Obligation{Rule: rule, Construct: construct, Status: Violated, Pos: pos, Expected: expected, Found: found, Facts: facts})
}

func (r *Report) Undecided(rule, construct, pos, why string) {
	r.Add(&Obligation{Rule: rule, Construct: construct, Status: Undecided, Pos: pos, Found: why})
}

func (r *Report) Lost(rule, anchor string) {
	r.Add(&Obligation{Rule: rule, Construct: "anchor " + anchor, Status: AnchorLost, Found: "anchor does not resolve in the current tree"})
}

func (r *Report) NoteF(format string, a ...interface{}) {
	r.Notes = append(r.Notes, fmt.Sprintf(format, a...))
}

// Check records whether cond holds.
func (r *Report) Check(cond bool, rule, construct, pos, expected, found string, facts ...string) bool {
	if cond {
		r.OK(rule, construct, pos, facts...)
	} else {
		r.Bad(rule, construct, pos, expected, found, facts...)
	}
	return cond
}

// RequireCount fails the check when a rule matched fewer instances than were confirmed by hand.
func (r *Report) RequireCount(rule string, found, min int) {
	r.MinCount[rule] = [2]int{found, min}
	if found < min {
		r.Add(&Obligation{Rule: rule, Construct: "instance count", Status: Violated,
			Expected: fmt.Sprintf(">= %d instances (confirmed by hand on the pinned tree)", min),
			Found:    fmt.Sprintf("%d instances: the rule would pass vacuously", found)})
	}
}

func LoadKnown(path string) ([]KnownFinding, error) {
	b, err := os.ReadFile(path)
	if err != nil {
		if os.IsNotExist(err) {
			return nil, nil
		}
		return nil, err
	}
	var k []KnownFinding
	if err := json.Unmarshal(b, &k); err != nil {
		return nil, fmt.Errorf("%s: %w", path, err)
	}
	return k, nil
}

// ApplyKnown turns violated obligations listed as "known" into known findings.
func (r *Report) ApplyKnown(known []KnownFinding) {
	for _, o := range r.Obs {
		if o.Status != Violated {
			continue
		}
		for _, k := range known {
			if k.Status == "known" && k.Property == r.Property && k.Rule == o.Rule && k.Construct == o.Construct {
				o.Status = Known
				o.What = k.What
			}
		}
	}
}

// Merge folds another report (another build configuration) into this one.
func (r *Report) Merge(other *Report) {
	for _, o := range other.Obs {
		c := *o
		if prev, ok := r.seen[c.Key()]; ok {
			// same obligation decided in another build configuration: keep one entry (worst verdict wins)
			if rank(c.Status) > rank(prev.Status) {
				prev.Status, prev.Pos, prev.Expected, prev.Found = c.Status, c.Pos, c.Expected, c.Found+" ["+other.Config+"]"
			}
			prev.Facts = append(prev.Facts, "also decided under "+other.Config+": "+string(c.Status))
			continue
		}
		if other.Config != "" && other.Config != r.Config {
			c.Construct = c.Construct + " [" + other.Config + "]"
		}
		r.Add(&c)
	}
	r.Notes = append(r.Notes, other.Notes...)
}

type Result struct {
	Violations int
	KnownN     int
	Lines      []string
}

// Finish prints the verdict lines, writes replay files and the evidence file.
func (r *Report) Finish(verifDir string, start time.Time, seed int, expl Explanation) Result {
	var res Result
	sort.SliceStable(r.Obs, func(i, j int) bool { return r.Obs[i].Key() < r.Obs[j].Key() })
	counts := map[Status]int{}
	vdir := filepath.Join(verifDir, "out", "violations")
	for _, o := range r.Obs {
		counts[o.Status]++
		switch o.Status {
		case Known:
			res.KnownN++
			res.Lines = append(res.Lines, fmt.Sprintf("KNOWN-FINDING: property=%s %s — %s (%s)", r.Property, o.Key(), o.What, o.Pos))
		case Violated, Undecided, AnchorLost:
			res.Violations++
			h := sha1.Sum([]byte(r.Property + "|" + o.Key()))
			path := filepath.Join(vdir, fmt.Sprintf("%s-%s.json", r.Property, hex.EncodeToString(h[:6])))
			os.MkdirAll(vdir, 0o755)
			b, _ := json.MarshalIndent(map[string]interface{}{
				"property": r.Property, "rule": o.Rule, "construct": o.Construct, "config": o.Config,
				"position": o.Pos, "status": o.Status, "expected": o.Expected, "found": o.Found, "facts": o.Facts,
			}, "", " ")
			os.WriteFile(path, b, 0o644)
			res.Lines = append(res.Lines, fmt.Sprintf("VIOLATION property=%s replay=%s", r.Property, path))
			res.Lines = append(res.Lines, fmt.Sprintf("  %s: [%s] %s\n    construct: %s\n    expected:  %s\n    found:     %s", o.Pos, o.Status, o.Rule, o.Construct, o.Expected, o.Found))
		}
	}
	// evidence
	total := 0
	disch := 0
	nontrivial := 0
	seenKey := map[string]bool{}
	var samples []interface{}
	perRule := map[string]int{}
	for _, o := range r.Obs {
		if o.Status == Note {
			continue
		}
		total++
		if o.Status == Discharged {
			disch++
		}
		// non-trivial: the decision looked at a located program construct (not a table-only or count-only
		// obligation); distinct: obligation keys are unique per report
		if !seenKey[o.Key()] && ((o.Pos != "" && o.Pos != "-") || len(o.Facts) > 0) {
			nontrivial++
		}
		seenKey[o.Key()] = true
		perRule[o.Rule]++
	}
	// samples: all non-discharged + up to 3 per rule of discharged
	shown := map[string]int{}
	for _, o := range r.Obs {
		if o.Status == Discharged {
			if shown[o.Rule] >= 3 {
				continue
			}
			shown[o.Rule]++
		}
		f := o.Facts
		if len(f) > 8 {
			f = append(append([]string{}, f[:8]...), fmt.Sprintf("… %d more", len(o.Facts)-8))
		}
		samples = append(samples, map[string]interface{}{"obligation": o.Key(), "verdict": o.Status, "position": o.Pos, "facts": f, "expected": o.Expected, "found": o.Found})
	}
	if len(samples) > 120 {
		samples = samples[:120]
	}
	mins := map[string]string{}
	for k, v := range r.MinCount {
		mins[k] = fmt.Sprintf("%d found / %d required", v[0], v[1])
	}
	r.Analysed["instance_counts"] = mins
	r.Analysed["obligations_per_rule"] = perRule
	r.Analysed["status_counts"] = counts
	if len(r.Notes) > 0 {
		n := r.Notes
		if len(n) > 60 {
			n = n[:60]
		}
		r.Analysed["notes"] = n
	}
	ev := map[string]interface{}{
		"property_id": r.Property,
		"tier":        r.Tier,
		"seed":        seed,
		"level":       "other",
		"coverage": map[string]interface{}{
			"explanation":         expl.Text,
			"rule":                expl.Rule + "; an obligation counts as distinct and non-trivial when its key (rule | construct) is unique in the run and its decision inspected a located construct of /repo (it carries a source position or recorded facts); table-only and instance-count obligations are not counted",
			"obligations":         total,
			"discharged":          disch,
			"evaluations":         total,
			"distinct_nontrivial": nontrivial,
			"samples":             samples,
			"checker_cmd":         expl.Cmd,
			"trusted_base":        expl.Trusted,
			"exhaustive":          false,
			"analysed":            r.Analysed,
			"known_findings":      res.KnownN,
		},
		"assumptions": append([]string{}, expl.Assumptions...),
		"wall_s":      time.Since(start).Seconds(),
		"violations":  res.Violations,
	}
	os.MkdirAll(filepath.Join(verifDir, "evidence"), 0o755)
	b, _ := json.MarshalIndent(ev, "", " ")
	os.WriteFile(filepath.Join(verifDir, "evidence", r.Property+".json"), b, 0o644)
	return res
}

type Explanation struct {
	Text        string
	Rule        string
	Cmd         string
	Trusted     []string
	Assumptions []string
}

// Short trims long strings for constructs.
func Short(s string, n int) string {
	s = strings.Join(strings.Fields(s), " ")
	if len(s) > n {
		return s[:n] + "…"
	}
	return s
}
